package main

import (
	"bytes"
	"context"
	"encoding/json"
	"fmt"
	"strconv"
	"time"

	"github.com/high-moctane/mocrelay"
	"verif/harness/common"
)

// C16: sessions through the real storage-backed handlers.
//   t = "cache"  : a message sequence over all five client types through
//                  CacheHandler.ServeNostr; every reply, and the match-everything
//                  listing of the store after every EVENT message.
//   t = "dump"   : a history added to the store, Dump, Restore into a fresh
//                  handler, listings and queries on both.
//   t = "sqlite" : a message sequence through the real SQLiteHandler (c16sql.go).
// Every message of a session is followed by a COUNT sentinel whose reply marks
// the end of the replies to that message; the sentinels are part of the
// recorded session.

const c16Timeout = 2 * time.Second

// ---------------------------------------------------------------------------
// JSON shapes

type c16Msg struct {
	K        string           `json:"k"` // event | req | close | auth | count
	E        *common.JEvent   `json:"e"`
	Sub      string           `json:"sub"`
	Fs       []common.JFilter `json:"fs"`
	Sentinel bool             `json:"sentinel"`
}

func (m c16Msg) MarshalJSON() ([]byte, error) {
	o := map[string]any{"k": m.K}
	switch m.K {
	case "event", "auth":
		o["e"] = m.E
	case "req", "count":
		o["sub"] = m.Sub
		fs := m.Fs
		if fs == nil {
			fs = []common.JFilter{}
		}
		o["fs"] = fs
	case "close":
		o["sub"] = m.Sub
	}
	if m.Sentinel {
		o["sentinel"] = true
	}
	return json.Marshal(o)
}

func (m c16Msg) toClient() mocrelay.ClientMsg {
	switch m.K {
	case "event":
		if m.E == nil {
			common.Fatalf("c16: EVENT message without an event")
		}
		return &mocrelay.ClientEventMsg{Event: m.E.ToEvent()}
	case "auth":
		if m.E == nil {
			common.Fatalf("c16: AUTH message without an event")
		}
		return &mocrelay.ClientAuthMsg{Event: m.E.ToEvent()}
	case "req":
		return &mocrelay.ClientReqMsg{SubscriptionID: m.Sub, ReqFilters: common.ToFilters(m.Fs)}
	case "count":
		return &mocrelay.ClientCountMsg{SubscriptionID: m.Sub, ReqFilters: common.ToFilters(m.Fs)}
	case "close":
		return &mocrelay.ClientCloseMsg{SubscriptionID: m.Sub}
	}
	common.Fatalf("c16: unknown message kind %q", m.K)
	return nil
}

type c16Reply struct {
	K         string
	ID        string
	Acc       bool
	Prefix    string
	Msg       string
	Sub       string
	E         *common.JEvent
	N         uint64
	Approx    *bool
	Challenge string
}

func (r c16Reply) MarshalJSON() ([]byte, error) {
	o := map[string]any{"k": r.K}
	switch r.K {
	case "ok":
		o["id"], o["acc"], o["prefix"], o["msg"] = r.ID, r.Acc, r.Prefix, r.Msg
	case "event":
		o["sub"], o["e"] = r.Sub, r.E
	case "eose":
		o["sub"] = r.Sub
	case "count":
		o["sub"], o["n"], o["approx"] = r.Sub, r.N, r.Approx
	case "closed":
		o["sub"], o["prefix"], o["msg"] = r.Sub, r.Prefix, r.Msg
	case "notice":
		o["msg"] = r.Msg
	case "auth":
		o["challenge"] = r.Challenge
	}
	return json.Marshal(o)
}

func c16FromServer(m mocrelay.ServerMsg) (c16Reply, bool) {
	switch m := m.(type) {
	case *mocrelay.ServerOKMsg:
		return c16Reply{K: "ok", ID: m.EventID, Acc: m.Accepted, Prefix: m.MsgPrefix, Msg: m.Msg}, true
	case *mocrelay.ServerEventMsg:
		if m.Event == nil {
			return c16Reply{}, false
		}
		je := common.FromEvent(m.Event)
		return c16Reply{K: "event", Sub: m.SubscriptionID, E: &je}, true
	case *mocrelay.ServerEOSEMsg:
		return c16Reply{K: "eose", Sub: m.SubscriptionID}, true
	case *mocrelay.ServerCountMsg:
		var a *bool
		if m.Approximate != nil {
			a = common.Ptr(*m.Approximate)
		}
		return c16Reply{K: "count", Sub: m.SubscriptionID, N: m.Count, Approx: a}, true
	case *mocrelay.ServerClosedMsg:
		return c16Reply{K: "closed", Sub: m.SubscriptionID, Prefix: m.MsgPrefix, Msg: m.Msg}, true
	case *mocrelay.ServerNoticeMsg:
		return c16Reply{K: "notice", Msg: m.Message}, true
	case *mocrelay.ServerAuthMsg:
		return c16Reply{K: "auth", Challenge: m.Challenge}, true
	}
	return c16Reply{}, false
}

func c16FromEvents(es []*mocrelay.Event) []common.JEvent {
	out := make([]common.JEvent, 0, len(es))
	for _, e := range es {
		out = append(out, common.FromEvent(e))
	}
	return out
}

func c16StripSentinels(in []c16Msg) []c16Msg {
	out := []c16Msg{}
	for _, m := range in {
		if !m.Sentinel {
			out = append(out, m)
		}
	}
	return out
}

// ---------------------------------------------------------------------------
// driving one ServeNostr session

type c16Driver struct {
	recv    chan mocrelay.ClientMsg
	send    chan mocrelay.ServerMsg
	dead    chan string
	msgs    []c16Msg
	replies []c16Reply
	nsent   int
	err     string
}

func c16Start(ctx context.Context, h mocrelay.Handler) *c16Driver {
	d := &c16Driver{
		recv:    make(chan mocrelay.ClientMsg),
		send:    make(chan mocrelay.ServerMsg),
		dead:    make(chan string, 2),
		msgs:    []c16Msg{},
		replies: []c16Reply{},
	}
	go func() {
		defer func() {
			if r := recover(); r != nil {
				d.dead <- fmt.Sprint("panic in ServeNostr: ", r)
			}
		}()
		err := h.ServeNostr(ctx, d.send, d.recv)
		d.dead <- fmt.Sprint("ServeNostr returned: ", err)
	}()
	return d
}

func (d *c16Driver) record(s mocrelay.ServerMsg) bool {
	r, ok := c16FromServer(s)
	if !ok {
		d.err = fmt.Sprintf("unexpected server message %T", s)
		return false
	}
	d.replies = append(d.replies, r)
	return true
}

// push hands one client message to the handler; replies that arrive while the
// handler is not yet reading are recorded in order.
func (d *c16Driver) push(m mocrelay.ClientMsg) bool {
	t := time.NewTimer(c16Timeout)
	defer t.Stop()
	for {
		select {
		case d.recv <- m:
			return true
		case s := <-d.send:
			if !d.record(s) {
				return false
			}
		case why := <-d.dead:
			d.err = why
			return false
		case <-t.C:
			d.err = "timeout: the handler did not take a message"
			return false
		}
	}
}

// await reads replies until the COUNT reply of the sentinel sub arrives.
func (d *c16Driver) await(sub string) bool {
	for {
		t := time.NewTimer(c16Timeout)
		select {
		case s := <-d.send:
			t.Stop()
			if !d.record(s) {
				return false
			}
			if c, ok := s.(*mocrelay.ServerCountMsg); ok && c.SubscriptionID == sub {
				return true
			}
		case why := <-d.dead:
			t.Stop()
			d.err = why
			return false
		case <-t.C:
			d.err = "timeout: a reply never came"
			return false
		}
	}
}

// exchange sends m and its sentinel and collects every reply up to and
// including the sentinel's.
func (d *c16Driver) exchange(m c16Msg) bool {
	d.msgs = append(d.msgs, m)
	if !d.push(m.toClient()) {
		return false
	}
	s := c16Msg{K: "count", Sub: fmt.Sprintf("\x01end-%d", d.nsent), Fs: []common.JFilter{{}}, Sentinel: true}
	d.nsent++
	d.msgs = append(d.msgs, s)
	if !d.push(s.toClient()) {
		return false
	}
	return d.await(s.Sub)
}

// ---------------------------------------------------------------------------
// (1) cache sessions

type c16CacheCase struct {
	T       string            `json:"t"`
	Cap     int               `json:"cap"`
	Msgs    []c16Msg          `json:"msgs"`
	Replies []c16Reply        `json:"replies"`
	Lists   [][]common.JEvent `json:"lists"`
	Err     string            `json:"err"`
}

func c16RunCache(capacity int, in []c16Msg) (c c16CacheCase) {
	c = c16CacheCase{T: "cache", Cap: capacity, Msgs: []c16Msg{}, Replies: []c16Reply{}, Lists: [][]common.JEvent{}}
	var d *c16Driver
	defer func() {
		if r := recover(); r != nil {
			c.Err = fmt.Sprint("panic: ", r)
		}
		if d != nil {
			c.Msgs, c.Replies = d.msgs, d.replies
			if c.Err == "" {
				c.Err = d.err
			}
		}
		if c.Err != "" && len(c.Msgs) == 0 {
			c.Msgs = c16StripSentinels(in)
		}
	}()
	ctx, cancel := context.WithCancel(context.Background())
	defer cancel()
	h := mocrelay.NewCacheHandler(capacity)
	d = c16Start(ctx, h)
	for _, m := range c16StripSentinels(in) {
		if !d.exchange(m) {
			return
		}
		if m.K == "event" {
			c.Lists = append(c.Lists, c16FromEvents(mocrelay.VerifCacheOf(h).Find([]*mocrelay.ReqFilter{{}})))
		}
	}
	return
}

// ---------------------------------------------------------------------------
// (2) dump / restore

type c16Q struct {
	Fs   []common.JFilter `json:"fs"`
	Out1 []common.JEvent  `json:"out1"`
	Out2 []common.JEvent  `json:"out2"`
}

type c16DumpCase struct {
	T        string          `json:"t"`
	Cap      int             `json:"cap"`
	Hist     []common.JEvent `json:"hist"`
	Listing  []common.JEvent `json:"listing"`
	Dumped   []common.JEvent `json:"dumped"`
	Restored []common.JEvent `json:"restored"`
	Qs       []c16Q          `json:"qs"`
	Err      string          `json:"err"`
}

// the wire form of an event, decoded without mocrelay's UnmarshalJSON
type c16WireEvent struct {
	ID        string     `json:"id"`
	Pubkey    string     `json:"pubkey"`
	CreatedAt int64      `json:"created_at"`
	Kind      int64      `json:"kind"`
	Tags      [][]string `json:"tags"`
	Content   string     `json:"content"`
	Sig       string     `json:"sig"`
}

func c16RunDump(capacity int, hist []common.JEvent, qs []c16Q) (c c16DumpCase) {
	c = c16DumpCase{T: "dump", Cap: capacity, Hist: hist, Listing: []common.JEvent{}, Dumped: []common.JEvent{},
		Restored: []common.JEvent{}, Qs: []c16Q{}}
	if c.Hist == nil {
		c.Hist = []common.JEvent{}
	}
	for _, q := range qs {
		fs := q.Fs
		if fs == nil {
			fs = []common.JFilter{}
		}
		c.Qs = append(c.Qs, c16Q{Fs: fs, Out1: []common.JEvent{}, Out2: []common.JEvent{}})
	}
	defer func() {
		if r := recover(); r != nil {
			c.Err = fmt.Sprint("panic: ", r)
		}
	}()
	all := []*mocrelay.ReqFilter{{}}
	h := mocrelay.NewCacheHandler(capacity)
	for _, je := range c.Hist {
		mocrelay.VerifCacheOf(h).Add(je.ToEvent())
	}
	c.Listing = c16FromEvents(mocrelay.VerifCacheOf(h).Find(all))
	var buf bytes.Buffer
	if err := h.Dump(&buf); err != nil {
		c.Err = "Dump: " + err.Error()
		return
	}
	var wire []c16WireEvent
	if err := json.Unmarshal(buf.Bytes(), &wire); err != nil {
		c.Err = "the dump is not a JSON array of events: " + err.Error()
		return
	}
	for _, w := range wire {
		tags := w.Tags
		if tags == nil {
			tags = [][]string{}
		}
		c.Dumped = append(c.Dumped, common.JEvent{ID: w.ID, PK: w.Pubkey, TS: w.CreatedAt, Kind: w.Kind, Tags: tags,
			Content: w.Content, Sig: w.Sig})
	}
	h2 := mocrelay.NewCacheHandler(capacity)
	if err := h2.Restore(bytes.NewReader(buf.Bytes())); err != nil {
		c.Err = "Restore: " + err.Error()
		return
	}
	c.Restored = c16FromEvents(mocrelay.VerifCacheOf(h2).Find(all))
	for i := range c.Qs {
		c.Qs[i].Out1 = c16FromEvents(mocrelay.VerifCacheOf(h).Find(common.ToFilters(c.Qs[i].Fs)))
		c.Qs[i].Out2 = c16FromEvents(mocrelay.VerifCacheOf(h2).Find(common.ToFilters(c.Qs[i].Fs)))
	}
	return
}

// ---------------------------------------------------------------------------
// generators for (1) and (2) (after cacheGenPool / cacheGenFilter of cmd/core/cache.go)

var c16Authors = []string{"pa", "pb", "pc"}
var c16Contents = []string{"", "hello", "a\x00b", "astral \U0001F600 \U00010348", "line\u2028sep\u2029end", "q\"b\\s/", "<&>", "\u00e9\u4e16\u754c"}
var c16CacheKinds = []int64{1, 1, 0, 3, 10000, 30000, 30000, 30001, 20000, 5, 5}

func c16GenPool(r *common.Rand, n int) ([]common.JEvent, []string) {
	ids := make([]string, n)
	for i := range ids {
		ids[i] = "e" + strconv.Itoa(i)
	}
	dvals := []string{"", "a", "b"}
	evs := make([]common.JEvent, n)
	extreme := r.Chance(10) // one pool in ten: created_at values at the ends of int64
	for i := 0; i < n; i++ {
		e := common.JEvent{ID: ids[i], PK: common.Pick(r, c16Authors), TS: int64(r.Intn(7)), Kind: common.Pick(r, c16CacheKinds),
			Tags: [][]string{}, Content: common.Pick(r, c16Contents), Sig: common.Pick(r, []string{"", "sig1", "sig2"})}
		if extreme && r.Chance(35) {
			e.TS = common.Pick(r, common.ExtremeTS)
		}
		for k := r.Intn(3); k > 0; k-- {
			switch r.Intn(5) {
			case 0:
				e.Tags = append(e.Tags, []string{"t", common.Pick(r, []string{"x", "y"})})
			case 1:
				e.Tags = append(e.Tags, []string{"p", common.Pick(r, c16Authors)})
			case 2:
				e.Tags = append(e.Tags, []string{"t"})
			case 3:
				e.Tags = append(e.Tags, []string{"p", common.Pick(r, c16Authors), "extra"})
			case 4:
				e.Tags = append(e.Tags, []string{"long", "x"})
			}
		}
		// a repeated single-letter tag whose value nobody else carries, followed by a further tag
		// (the index key of the repetition is met twice when the event leaves the store)
		if r.Chance(18) {
			u := "u" + strconv.Itoa(i)
			name := common.Pick(r, []string{"p", "t"})
			e.Tags = append(e.Tags, []string{name, u}, []string{name, u}, []string{"t", common.Pick(r, []string{"x", "y"})})
		}
		if e.Kind >= 30000 && e.Kind < 40000 {
			switch r.Intn(12) {
			case 0: // no d tag at all
			case 1:
				e.Tags = append(e.Tags, []string{"d"})
			case 2:
				e.Tags = append(e.Tags, []string{"d", common.Pick(r, dvals)}, []string{"d", common.Pick(r, dvals)})
			case 3: // the first d tag has no value (d = ""), a later one has
				e.Tags = append(e.Tags, []string{"d"}, []string{"d", common.Pick(r, []string{"a", "b"})})
			default:
				e.Tags = append(e.Tags, []string{"d", common.Pick(r, dvals)})
			}
		}
		evs[i] = e
	}
	// deletion requests: e references to non-ephemeral pool events (earlier or
	// later, own id), a references to addressable addresses only, junk
	for i := range evs {
		if evs[i].Kind != 5 {
			continue
		}
		nrefs := 1 + r.Intn(3)
		for k := 0; k < nrefs; k++ {
			switch r.Intn(10) {
			case 0, 1, 2, 3:
				j := r.Intn(n)
				if evs[j].Kind >= 20000 && evs[j].Kind < 30000 {
					continue
				}
				t := []string{"e", ids[j]}
				if r.Chance(25) {
					t = append(t, "wss://relay")
				}
				if r.Chance(10) {
					t = append(t, "x", "y")
				}
				evs[i].Tags = append(evs[i].Tags, t)
			case 4:
				evs[i].Tags = append(evs[i].Tags, []string{"e", ids[i]})
			case 5, 6, 7:
				kd := common.Pick(r, []int64{30000, 30001})
				pk := evs[i].PK
				if r.Chance(30) {
					pk = common.Pick(r, c16Authors)
				}
				t := []string{"a", strconv.FormatInt(kd, 10) + ":" + pk + ":" + common.Pick(r, dvals)}
				if r.Chance(20) {
					t = append(t, "wss://relay")
				}
				evs[i].Tags = append(evs[i].Tags, t)
			case 8:
				evs[i].Tags = append(evs[i].Tags, []string{"e"})
			case 9:
				evs[i].Tags = append(evs[i].Tags, []string{"e", "nosuchid"})
			}
		}
	}
	return evs, ids
}

// c16GenFilter never yields an empty list of tag conditions (an empty non-nil
// Tags map is outside the statement).
func c16GenFilter(r *common.Rand, ids []string, sel int) common.JFilter {
	var f common.JFilter
	sub := func(xs []string, k int) []string {
		out := []string{}
		for i := 0; i < k; i++ {
			out = append(out, common.Pick(r, xs))
		}
		return out
	}
	if r.Chance(sel) {
		f.IDs = common.Ptr(sub(ids, r.Intn(4)))
	}
	if r.Chance(sel) {
		f.Authors = common.Ptr(sub(c16Authors, r.Intn(3)))
	}
	if r.Chance(sel) {
		ks := []int64{}
		for k := r.Intn(4); k > 0; k-- {
			ks = append(ks, common.Pick(r, []int64{0, 1, 3, 5, 10000, 30000, 30001}))
		}
		f.Kinds = &ks
	}
	if r.Chance(sel + 15) {
		tcs := []common.JTagCond{}
		names := []string{"t", "p", "d", "e", "a"}
		for k := 1 + r.Intn(2); k > 0 && len(names) > 0; k-- {
			i := r.Intn(len(names))
			var vals []string
			switch names[i] {
			case "t":
				vals = sub([]string{"x", "y", ""}, r.Intn(3))
			case "p":
				vals = sub(c16Authors, 1+r.Intn(2))
			case "d":
				vals = sub([]string{"", "a", "b"}, 1+r.Intn(2))
			case "e":
				vals = sub(ids, 1+r.Intn(2))
			case "a":
				vals = []string{"30000:" + common.Pick(r, c16Authors) + ":" + common.Pick(r, []string{"", "a", "b"})}
			}
			tcs = append(tcs, common.JTagCond{Name: names[i], Vals: vals})
			names = append(names[:i], names[i+1:]...)
		}
		f.Tags = &tcs
	}
	if r.Chance(sel + 10) {
		f.Since = common.Ptr(int64(r.Intn(8)))
	}
	if r.Chance(sel + 10) {
		f.Until = common.Ptr(int64(r.Intn(8)))
	}
	if r.Chance(55) {
		f.Limit = common.Ptr(int64(r.Intn(4)))
	}
	return f
}

func c16GenFilters(r *common.Rand, ids []string) []common.JFilter {
	nf := 1 + r.Intn(3)
	sel := []int{10, 30, 55}[r.Intn(3)]
	fs := []common.JFilter{}
	for k := 0; k < nf; k++ {
		fs = append(fs, c16GenFilter(r, ids, sel))
	}
	return fs
}

func c16GenCap(r *common.Rand) int {
	if r.Intn(3) == 0 {
		return 100
	}
	return 1 + r.Intn(6)
}

func c16AuthEvent(id, pk, sig string, ts int64) *common.JEvent {
	return &common.JEvent{ID: id, PK: pk, TS: ts, Kind: 22242,
		Tags: [][]string{{"challenge", "c"}, {"relay", "r"}}, Content: "", Sig: sig}
}

func c16GenCacheSession(r *common.Rand) (int, []c16Msg) {
	capacity := c16GenCap(r)
	pool, ids := c16GenPool(r, 4+r.Intn(11))
	n := r.Intn(25)
	msgs := []c16Msg{}
	offered := []int{}
	nauth := 0
	subs := []string{"s1", "s2", ""}
	var reqs [][]common.JFilter
	for i := 0; i < n; i++ {
		switch x := r.Intn(100); {
		case x < 50:
			idx := r.Intn(len(pool))
			if r.Chance(12) && len(offered) > 0 {
				idx = offered[r.Intn(len(offered))]
			}
			offered = append(offered, idx)
			e := pool[idx]
			msgs = append(msgs, c16Msg{K: "event", E: &e})
		case x < 78:
			fs := c16GenFilters(r, ids)
			if len(offered) > 0 && r.Chance(30) {
				// one filter with a single id, author or kind taken from an event already offered, and a second
				// condition: the candidates of the first are cut down by the second
				ev := pool[offered[r.Intn(len(offered))]]
				var f common.JFilter
				switch r.Intn(3) {
				case 0:
					f.IDs = common.Ptr([]string{ev.ID})
				case 1:
					f.Authors = common.Ptr([]string{ev.PK})
				default:
					f.Kinds = common.Ptr([]int64{ev.Kind})
				}
				switch r.Intn(3) {
				case 0:
					f.Kinds = common.Ptr([]int64{common.Pick(r, []int64{0, 1, 5, 30000})})
				case 1:
					f.Authors = common.Ptr([]string{common.Pick(r, c16Authors)})
				default:
					f.Tags = common.Ptr([]common.JTagCond{{Name: "t", Vals: []string{common.Pick(r, []string{"x", "y"})}}})
				}
				fs = []common.JFilter{f}
			} else if len(reqs) > 0 && r.Chance(30) {
				// an earlier REQ again, with one condition fewer per filter
				fs = common.Relax(r, reqs[r.Intn(len(reqs))])
			}
			reqs = append(reqs, fs)
			msgs = append(msgs, c16Msg{K: "req", Sub: common.Pick(r, subs), Fs: fs})
		case x < 86:
			msgs = append(msgs, c16Msg{K: "count", Sub: common.Pick(r, subs), Fs: c16GenFilters(r, ids)})
		case x < 93:
			msgs = append(msgs, c16Msg{K: "close", Sub: common.Pick(r, subs)})
		default:
			msgs = append(msgs, c16Msg{K: "auth", E: c16AuthEvent("au"+strconv.Itoa(nauth), common.Pick(r, c16Authors), "sig1", int64(r.Intn(7)))})
			nauth++
		}
	}
	return capacity, msgs
}

func c16GenDump(r *common.Rand) (int, []common.JEvent, []c16Q) {
	capacity := c16GenCap(r)
	pool, ids := c16GenPool(r, 4+r.Intn(11))
	hist := make([]common.JEvent, r.Intn(31))
	for i := range hist {
		hist[i] = pool[r.Intn(len(pool))]
	}
	qs := []c16Q{}
	for i := 0; i < 4; i++ {
		qs = append(qs, c16Q{Fs: c16GenFilters(r, ids)})
	}
	return capacity, hist, qs
}

// ---------------------------------------------------------------------------
// sub-command

type c16In struct {
	T    string          `json:"t"`
	N    int             `json:"n"`
	Tie  int             `json:"tie"`
	Cap  int             `json:"cap"`
	ML   uint64          `json:"ml"`
	Msgs []c16Msg        `json:"msgs"`
	Hist []common.JEvent `json:"hist"`
	Qs   []c16Q          `json:"qs"`
}

func init() {
	subcmds["c16"] = func(seed uint64, n int, out *common.Out, replay string) {
		if replay != "" {
			for _, raw := range common.ReadLines(replay) {
				var in c16In
				if err := json.Unmarshal(raw, &in); err != nil {
					common.Fatalf("bad replay case: %v", err)
				}
				switch in.T {
				case "cache":
					out.Emit(c16RunCache(in.Cap, in.Msgs))
				case "dump":
					out.Emit(c16RunDump(in.Cap, in.Hist, in.Qs))
				case "sqlite":
					out.Emit(c16RunSqlite(in.ML, in.Msgs))
				case "bigdump":
					out.Emit(c16RunBigDump(in.Cap, in.N, in.Tie))
				default:
					common.Fatalf("bad replay case: unknown t %q", in.T)
				}
			}
			return
		}
		root := common.NewRand(seed)
		for i := 0; i < n; i++ {
			r := root.Fork(uint64(i))
			if i%400 == 7 { // a few large stores per run
				capacity, nn, tie := c16GenBigDump(r)
				out.Emit(c16RunBigDump(capacity, nn, tie))
				continue
			}
			switch i % 5 {
			case 0, 1:
				capacity, msgs := c16GenCacheSession(r)
				out.Emit(c16RunCache(capacity, msgs))
			case 2, 3:
				capacity, hist, qs := c16GenDump(r)
				out.Emit(c16RunDump(capacity, hist, qs))
			default:
				ml, msgs := c16GenSqliteSession(r)
				out.Emit(c16RunSqlite(ml, msgs))
			}
		}
	}
}
