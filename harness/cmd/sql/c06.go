package main

import (
	"context"
	"database/sql"
	"encoding/json"
	"errors"
	"fmt"
	"reflect"
	"strings"
	"time"

	"github.com/high-moctane/mocrelay"
	"github.com/high-moctane/mocrelay/handler/sqlite"
	_ "github.com/mattn/go-sqlite3"
	"verif/harness/common"
)

// C06: batch histories against the real insertEvents / queryEvent (and, for a
// share of the cases, the public SQLiteHandler with EventBulkInsertNum = 1).

type sqlQuery struct {
	Fs  []common.JFilter `json:"fs"`
	Err bool             `json:"err"`
	Out []common.JEvent  `json:"out"`
}

type sqlStep struct {
	B []common.JEvent `json:"b"`
	Q []sqlQuery      `json:"q"`
}

type c06Case struct {
	Via   string    `json:"via"` // "direct" | "handler"
	ML    uint64    `json:"ml"`  // maxLimit (NoLimit = MaxUint)
	Steps []sqlStep `json:"steps"`
	Panic string    `json:"panic,omitempty"`
}

const noLimit = uint64(sqlite.NoLimit)

func openMemDB(ctx context.Context) (*sql.DB, uint32) {
	db, err := sql.Open("sqlite3", ":memory:")
	if err != nil {
		panic(fmt.Sprintf("open: %v", err))
	}
	db.SetMaxOpenConns(1)
	if err := sqlite.SetPragmas(ctx, db); err != nil {
		panic(fmt.Sprintf("pragmas: %v", err))
	}
	if err := sqlite.Migrate(ctx, db); err != nil {
		panic(fmt.Sprintf("migrate: %v", err))
	}
	seed, err := sqlite.VerifSetOrLoadXXHashSeed(ctx, db)
	if err != nil {
		panic(fmt.Sprintf("seed: %v", err))
	}
	return db, seed
}

// insertChecked: insertEvents on Go values made from js; the store is given events to read, not to rewrite (a
// relay hands the same *Event to its cache and to its router as well)
func insertChecked(ctx context.Context, db *sql.DB, seed uint32, js []common.JEvent) error {
	evs := toEvents(js)
	if err := sqlite.VerifInsertEvents(ctx, db, seed, evs); err != nil {
		return err
	}
	if !reflect.DeepEqual(evs, toEvents(js)) {
		return errors.New("insertEvents rewrote the events it was given")
	}
	return nil
}

func toEvents(js []common.JEvent) []*mocrelay.Event {
	out := make([]*mocrelay.Event, len(js))
	for i := range js {
		out[i] = js[i].ToEvent()
	}
	return out
}

func fromEvents(es []*mocrelay.Event) []common.JEvent {
	out := make([]common.JEvent, 0, len(es))
	for _, e := range es {
		out = append(out, common.FromEvent(e))
	}
	return out
}

func runQueries(ctx context.Context, db *sql.DB, seed uint32, ml uint64, qs []sqlQuery) {
	for i := range qs {
		out, err := sqlite.VerifQueryEvent(ctx, db, seed, common.ToFilters(qs[i].Fs), uint(ml))
		qs[i].Err = err != nil
		qs[i].Out = fromEvents(out)
		if err != nil {
			qs[i].Out = []common.JEvent{}
		}
	}
}

func c06RunDirect(c *c06Case) {
	ctx := context.Background()
	db, seed := openMemDB(ctx)
	defer db.Close()
	for i := range c.Steps {
		if err := insertChecked(ctx, db, seed, c.Steps[i].B); err != nil {
			c.Panic = "insertEvents failed: " + err.Error()
			return
		}
		runQueries(ctx, db, seed, c.ML, c.Steps[i].Q)
	}
}

// sentinelEvent: a regular event that the handler variant sends after every
// batch and polls for, because the bulk inserter acknowledges before it
// inserts.  It is part of the recorded history.
func sentinelEvent(n int) common.JEvent {
	return common.JEvent{
		ID:   fmt.Sprintf("fe%062x", n),
		PK:   strings.Repeat("fd", 32),
		TS:   1000 + int64(n),
		Kind: 1, Tags: [][]string{}, Content: "sentinel", Sig: strings.Repeat("fc", 64),
	}
}

func c06RunHandler(c *c06Case) {
	ctx, cancel := context.WithCancel(context.Background())
	defer cancel()
	db, err := sql.Open("sqlite3", ":memory:")
	if err != nil {
		panic(fmt.Sprintf("open: %v", err))
	}
	db.SetMaxOpenConns(1)
	defer db.Close()
	if err := sqlite.SetPragmas(ctx, db); err != nil {
		panic(fmt.Sprintf("pragmas: %v", err))
	}
	h, err := sqlite.NewSQLiteHandler(ctx, db, &sqlite.SQLiteHandlerOption{
		EventBulkInsertNum: 1, EventBulkInsertDur: time.Hour, MaxLimit: uint(c.ML)})
	if err != nil {
		panic(fmt.Sprintf("handler: %v", err))
	}
	recv := make(chan mocrelay.ClientMsg)
	send := make(chan mocrelay.ServerMsg, 4096)
	done := make(chan error, 1)
	go func() { done <- h.ServeNostr(ctx, send, recv) }()
	req := func(fs []common.JFilter) ([]common.JEvent, bool) {
		select {
		case recv <- &mocrelay.ClientReqMsg{SubscriptionID: "s", ReqFilters: common.ToFilters(fs)}:
		case <-time.After(5 * time.Second):
			return nil, false
		}
		var out []common.JEvent
		for {
			select {
			case m := <-send:
				switch m := m.(type) {
				case *mocrelay.ServerEventMsg:
					out = append(out, common.FromEvent(m.Event))
				case *mocrelay.ServerEOSEMsg:
					return out, true
				}
			case <-time.After(5 * time.Second):
				return nil, false
			}
		}
	}
	sendEvent := func(e common.JEvent) bool {
		select {
		case recv <- &mocrelay.ClientEventMsg{Event: e.ToEvent()}:
		case <-time.After(5 * time.Second):
			return false
		}
		for {
			select {
			case m := <-send:
				if _, ok := m.(*mocrelay.ServerOKMsg); ok {
					return true
				}
			case <-time.After(5 * time.Second):
				return false
			}
		}
	}
	for i := range c.Steps {
		for _, e := range c.Steps[i].B {
			if !sendEvent(e) {
				c.Panic = "handler did not acknowledge an EVENT"
				return
			}
		}
		// wait until the last event of the step (a sentinel) is visible
		if n := len(c.Steps[i].B); n > 0 {
			last := c.Steps[i].B[n-1]
			ok := false
			for try := 0; try < 2000; try++ {
				out, alive := req([]common.JFilter{{IDs: &[]string{last.ID}}})
				if !alive {
					break
				}
				if len(out) > 0 {
					ok = true
					break
				}
				time.Sleep(time.Millisecond)
			}
			if !ok {
				c.Panic = "sentinel never became visible"
				return
			}
		}
		for j := range c.Steps[i].Q {
			q := &c.Steps[i].Q[j]
			out, alive := req(q.Fs)
			if !alive {
				c.Panic = "handler did not answer a REQ"
				return
			}
			q.Err = false
			q.Out = out
			if q.Out == nil {
				q.Out = []common.JEvent{}
			}
		}
	}
	cancel()
	select {
	case <-done:
	case <-time.After(5 * time.Second):
	}
}

func c06Run(c *c06Case) {
	defer func() {
		if r := recover(); r != nil {
			c.Panic = fmt.Sprint("panic: ", r)
		}
	}()
	c.Panic = ""
	for i := range c.Steps {
		if c.Steps[i].B == nil {
			c.Steps[i].B = []common.JEvent{}
		}
		if c.Steps[i].Q == nil {
			c.Steps[i].Q = []sqlQuery{}
		}
		for j := range c.Steps[i].Q {
			c.Steps[i].Q[j].Err = false
			c.Steps[i].Q[j].Out = []common.JEvent{}
			if c.Steps[i].Q[j].Fs == nil {
				c.Steps[i].Q[j].Fs = []common.JFilter{}
			}
		}
	}
	if c.Via == "handler" {
		c06RunHandler(c)
	} else {
		c.Via = "direct"
		c06RunDirect(c)
	}
}

// ---------------------------------------------------------------------------
// generators

var sqlPKs = []string{strings.Repeat("a1", 32), strings.Repeat("b2", 32), strings.Repeat("c3", 32)}
var sqlSigs = []string{strings.Repeat("5e", 64), strings.Repeat("6f", 64)}
var sqlContents = []string{"", "hello", "a\x00b", "astral \U0001F600 \U00010348", "line sep ", "q\"b\\s/", "<&>", "é世界"}

// (values longer than 256 bytes that agree on their first 256 bytes; a d value with a colon)
var sqlLongVal = strings.Repeat("L", 300)
var sqlFreeVals = []string{"", "v1", "v2", sqlLongVal + "a", sqlLongVal + "b"}
var sqlDVals = []string{"", "a", "b", "x:y"}

func sqlID(i int) string { return strings.Repeat(fmt.Sprintf("%02x", 0x10+i), 32) }

type sqlGen struct {
	r    *common.Rand
	pool []common.JEvent
	// twoOnly: deletion requests carry two-element e/a tags only (C14: the
	// tags with extra elements belong to C06)
	twoOnly bool
}

func (g *sqlGen) extra(t []string) []string {
	switch g.r.Intn(10) {
	case 0:
		return append(t, "wss://relay.example")
	case 1:
		return append(t, "wss://relay.example", "extra")
	}
	return t
}

// plainTags: tags of a non-deletion event.
func (g *sqlGen) plainTags(np int) [][]string {
	r := g.r
	tags := [][]string{}
	n := r.Intn(5)
	for i := 0; i < n; i++ {
		var t []string
		switch r.Intn(8) {
		case 0, 1:
			t = []string{"e", sqlID(r.Intn(np))}
		case 2:
			t = []string{"p", common.Pick(r, sqlPKs)}
		case 3, 4:
			t = []string{"t", common.Pick(r, sqlFreeVals)}
		case 5:
			t = []string{"X", common.Pick(r, sqlFreeVals)}
		case 6:
			t = []string{common.Pick(r, []string{"ab", "1", "tt", "é"}), common.Pick(r, sqlFreeVals)}
		default:
			t = []string{common.Pick(r, []string{"t", "X", "e"})} // one-element tag: value ""
		}
		if len(t) >= 2 {
			t = g.extra(t)
		}
		tags = append(tags, t)
		if r.Chance(12) { // the same tag twice
			tags = append(tags, append([]string{}, t...))
		}
	}
	return tags
}

// makePool draws np distinct events; event i has id sqlID(i).
func (g *sqlGen) makePool(np int, functional bool) {
	r := g.r
	g.pool = make([]common.JEvent, np)
	type addrT struct{ s string }
	for i := 0; i < np; i++ {
		e := common.JEvent{ID: sqlID(i), PK: common.Pick(r, sqlPKs), TS: int64(r.Intn(7)), Tags: [][]string{},
			Content: common.Pick(r, sqlContents), Sig: common.Pick(r, sqlSigs)}
		if r.Chance(2) {
			e.TS = 4294967296 + int64(r.Intn(3)) // beyond uint32: the regular key truncates
		}
		if r.Chance(3) {
			e.TS = -1 - int64(r.Intn(5)) // before the epoch
		}
		switch c := r.Intn(100); {
		case c < 22:
			e.Kind = 1
			e.Tags = g.plainTags(np)
		case c < 42:
			e.Kind = common.Pick(r, []int64{0, 3, 10000})
			e.Tags = g.plainTags(np)
		case c < 64:
			e.Kind = 30000
			e.Tags = g.plainTags(np)
			if !r.Chance(12) {
				d := []string{"d", common.Pick(r, sqlDVals)}
				if r.Chance(10) {
					d = []string{"d"} // value ""
				}
				if r.Chance(15) {
					d = append(d, "extra")
				}
				pos := r.Intn(len(e.Tags) + 1)
				e.Tags = append(e.Tags[:pos], append([][]string{d}, e.Tags[pos:]...)...)
				if r.Chance(10) { // a second d tag is ignored
					e.Tags = append(e.Tags, []string{"d", common.Pick(r, sqlDVals)})
				}
			}
		case c < 70:
			e.Kind = 20000
			e.Tags = g.plainTags(np)
		default:
			e.Kind = 5
		}
		g.pool[i] = e
	}
	// deletion requests reference pool members (earlier or later ones)
	for i := range g.pool {
		e := &g.pool[i]
		if e.Kind != 5 {
			continue
		}
		n := 1 + r.Intn(3)
		for j := 0; j < n; j++ {
			tgt := g.pool[r.Intn(np)]
			if r.Chance(75) {
				e.PK = tgt.PK // mostly the target's author; otherwise another author's request
			}
			var t []string
			switch c := r.Intn(100); {
			case c < 45:
				t = []string{"e", tgt.ID}
			case c < 85:
				pk := tgt.PK
				d := common.Pick(r, sqlDVals)
				for _, tg := range tgt.Tags {
					if len(tg) >= 1 && tg[0] == "d" {
						d = ""
						if len(tg) > 1 {
							d = tg[1]
						}
						break
					}
				}
				t = []string{"a", fmt.Sprintf("30000:%s:%s", pk, d)}
			case c < 88:
				t = []string{"e", "zz"} // not hex: skipped
			case c < 91:
				t = []string{"a", "nocolon"}
			case c < 94:
				t = []string{common.Pick(r, []string{"e", "a"})} // one element
			case c < 96:
				t = []string{"a", fmt.Sprintf("%d:%s", common.Pick(r, []int64{0, 3, 10000}), tgt.PK)} // replaceable: not claimed
			case c < 97:
				t = []string{"e", strings.ToUpper(tgt.ID)} // upper-case hex: outside the statement
			default:
				t = []string{"p", tgt.PK}
			}
			// 2 / 3 / 4 elements
			x := r.Intn(10)
			if g.twoOnly {
				x = 9
			}
			switch x {
			case 0, 1, 2:
				if len(t) >= 2 {
					t = append(t, "wss://relay.example")
				}
			case 3:
				if len(t) >= 2 {
					t = append(t, "wss://relay.example", "extra")
				}
			}
			e.Tags = append(e.Tags, t)
		}
	}
	if !functional && np >= 2 {
		// ids not functional: outside the statement, exercises the model only
		g.pool[np-1].ID = g.pool[0].ID
	}
}

func strSubset(r *common.Rand, xs []string, p int) []string {
	out := []string{}
	for _, x := range xs {
		if r.Chance(p) {
			out = append(out, x)
		}
	}
	return out
}

func (g *sqlGen) filter(sel int) common.JFilter {
	r := g.r
	var f common.JFilter
	np := len(g.pool)
	ids := make([]string, np)
	for i := range ids {
		ids[i] = sqlID(i)
	}
	if r.Chance(sel) {
		l := strSubset(r, ids, 40)
		if r.Chance(85) && len(l) == 0 && np > 0 {
			l = append(l, ids[r.Intn(np)])
		}
		f.IDs = &l
	}
	if r.Chance(sel) {
		l := strSubset(r, sqlPKs, 50)
		if r.Chance(85) && len(l) == 0 {
			l = append(l, common.Pick(r, sqlPKs))
		}
		f.Authors = &l
	}
	if r.Chance(sel) {
		ks := []int64{}
		for _, k := range []int64{0, 1, 3, 5, 10000, 20000, 30000} {
			if r.Chance(45) {
				ks = append(ks, k)
			}
		}
		f.Kinds = &ks
	}
	if r.Chance(sel) {
		tcs := []common.JTagCond{}
		names := []string{"e", "p", "t", "X"}
		n := 1 + r.Intn(2)
		for i := 0; i < n; i++ {
			k := r.Intn(len(names))
			name := names[k]
			names = append(names[:k], names[k+1:]...)
			var vals []string
			switch name {
			case "e":
				vals = strSubset(r, ids, 45)
			case "p":
				vals = strSubset(r, sqlPKs, 60)
			default:
				vals = strSubset(r, sqlFreeVals, 60)
			}
			if r.Chance(10) && len(vals) > 0 {
				vals = append(vals, vals[0])
			}
			tcs = append(tcs, common.JTagCond{Name: name, Vals: vals})
		}
		f.Tags = &tcs
	}
	if r.Chance(sel) {
		f.Since = common.Ptr(int64(r.Intn(8)))
	}
	if r.Chance(sel) {
		f.Until = common.Ptr(int64(r.Intn(8)))
	}
	switch c := r.Intn(100); {
	case c < 40:
	case c < 52:
		f.Limit = common.Ptr(int64(0))
	case c < 72:
		f.Limit = common.Ptr(int64(1))
	case c < 87:
		f.Limit = common.Ptr(int64(2))
	default:
		f.Limit = common.Ptr(int64(3 + r.Intn(4)))
	}
	return f
}

func (g *sqlGen) filterList() []common.JFilter {
	r := g.r
	n := 1 + r.Intn(3)
	if r.Chance(2) {
		n = 0 // the gate never passes an empty list; model only
	}
	fs := []common.JFilter{}
	sel := []int{10, 25, 40}[r.Intn(3)]
	for i := 0; i < n; i++ {
		fs = append(fs, g.filter(sel))
	}
	if n >= 2 && r.Chance(30) { // overlapping filters: a copy with another limit
		f := fs[0]
		f.Limit = common.Ptr(int64(r.Intn(3)))
		fs[n-1] = f
	}
	return fs
}

func c06Gen(r *common.Rand, handlerShare int) c06Case {
	g := &sqlGen{r: r}
	var c c06Case
	c.Via = "direct"
	switch x := r.Intn(100); {
	case x < 80:
		c.ML = noLimit
	case x < 92:
		c.ML = 1000
	default:
		c.ML = uint64(1 + r.Intn(4))
	}
	functional := !r.Chance(8)
	np := 2 + r.Intn(11)
	g.makePool(np, functional)
	ne := r.Intn(31)
	if r.Chance(40) {
		ne = r.Intn(13)
	}
	hist := make([]common.JEvent, ne)
	for i := range hist {
		hist[i] = g.pool[r.Intn(np)]
	}
	if functional && r.Chance(handlerShare) {
		c.Via = "handler"
		if c.ML < 1000 {
			c.ML = noLimit
		}
	}
	// split into batches
	nq := 4
	for i := 0; i < len(hist) || len(c.Steps) == 0; {
		k := 1 + r.Intn(6)
		if r.Chance(10) {
			k = 0
		}
		if i+k > len(hist) {
			k = len(hist) - i
		}
		st := sqlStep{B: append([]common.JEvent{}, hist[i:i+k]...), Q: []sqlQuery{}}
		i += k
		if c.Via == "handler" {
			st.B = append(st.B, sentinelEvent(len(c.Steps)))
		}
		st.Q = append(st.Q, sqlQuery{Fs: []common.JFilter{{}}})
		for j := 1; j < nq; j++ {
			st.Q = append(st.Q, sqlQuery{Fs: g.filterList()})
		}
		if c.Via == "handler" {
			for j := range st.Q {
				if len(st.Q[j].Fs) == 0 {
					st.Q[j].Fs = []common.JFilter{{}}
				}
			}
		}
		c.Steps = append(c.Steps, st)
		if len(hist) == 0 {
			break
		}
	}
	return c
}

func init() {
	subcmds["c06"] = func(seed uint64, n int, out *common.Out, replay string) {
		if replay != "" {
			for _, raw := range common.ReadLines(replay) {
				var c c06Case
				if err := json.Unmarshal(raw, &c); err != nil {
					common.Fatalf("bad replay case: %v", err)
				}
				c06Run(&c)
				out.Emit(c)
			}
			return
		}
		root := common.NewRand(seed)
		for i := 0; i < n; i++ {
			c := c06Gen(root.Fork(uint64(i)), 12)
			c06Run(&c)
			out.Emit(c)
		}
	}
}
