package main

// C15: concurrent mixes of Add / Find / Len against ONE real EventCache (directly, or through
// concurrent CacheHandler sessions), recorded as invocation/response histories.
//
// Every operation is stamped with a global atomic clock immediately before the call (inv) and
// immediately after it returned (resp); a response stamp smaller than an invocation stamp
// therefore means "returned before the other was called" in real time.
//
// The binary is built with -race.  The parent process re-executes itself as a child with
// GORACE="halt_on_error=1 exitcode=66"; the child writes every finished history at once, so when
// the race detector (or the runtime: "concurrent map writes", or the watchdog) stops it, the
// parent knows which history was running, records it with the report as `race`, and starts a
// new child behind it.
//
// -replay echoes recorded histories unchanged: schedules do not replay, so a replay re-judges
// the RECORDED history.

import (
	"bytes"
	"context"
	"encoding/json"
	"fmt"
	"os"
	"os/exec"
	"runtime"
	"strconv"
	"strings"
	"sync"
	"sync/atomic"
	"time"

	"github.com/high-moctane/mocrelay"
	"verif/harness/common"
)

type linOp struct {
	T     int              `json:"t"` // 0 = sequential prefix, 1.. = concurrent goroutines
	K     string           `json:"k"` // add | find | len
	E     string           `json:"e,omitempty"`
	Fs    []common.JFilter `json:"fs,omitempty"`
	Noise int              `json:"noise"`
	Late  bool             `json:"late"` // the schedule noise sits between the inv stamp and the call (wide interval)
	Inv   int64            `json:"inv"`
	Resp  int64            `json:"resp"`
	Added bool             `json:"added"`
	Out   []string         `json:"out"`
	N     int              `json:"n"`
	Panic string           `json:"panic,omitempty"`
}

type linCase struct {
	Idx  int                      `json:"idx"`
	Cap  int                      `json:"cap"`
	Mode string                   `json:"mode"` // direct | session
	Pool map[string]common.JEvent `json:"pool"`
	Ops  []linOp                  `json:"ops"`
	Race string                   `json:"race,omitempty"`
}

// ---------------------------------------------------------------------------
// generation: a small pool of RELATED events

func linGenPool(r *common.Rand) (map[string]common.JEvent, []string) {
	pool := map[string]common.JEvent{}
	var ids []string
	add := func(e common.JEvent) string {
		e.ID = "e" + strconv.Itoa(len(ids))
		if e.Tags == nil {
			e.Tags = [][]string{}
		}
		pool[e.ID] = e
		ids = append(ids, e.ID)
		return e.ID
	}
	extreme := r.Chance(15)
	ts := func() int64 {
		if extreme && r.Chance(50) {
			return common.Pick(r, common.ExtremeTS) // created_at at the ends of int64
		}
		return int64(r.Intn(6))
	}
	var regular, addressable []string
	// versions of one addressable address (sometimes two addresses)
	if r.Chance(75) {
		for k := 2 + r.Intn(2); k > 0; k-- {
			d := "x"
			if r.Chance(20) {
				d = "y"
			}
			tags := [][]string{{"d", d}}
			if r.Chance(30) {
				tags = append(tags, []string{"t", "v"})
			}
			addressable = append(addressable, add(common.JEvent{PK: "pa", TS: ts(), Kind: 30000, Tags: tags}))
		}
	}
	// versions of one replaceable address
	if r.Chance(50) {
		for k := 2; k > 0; k-- {
			add(common.JEvent{PK: common.Pick(r, []string{"pa", "pa", "pb"}), TS: ts(), Kind: 10000})
		}
	}
	// regular events
	for k := 1 + r.Intn(3); k > 0; k-- {
		tags := [][]string{}
		if r.Chance(40) {
			tags = append(tags, []string{"t", common.Pick(r, []string{"v", "w"})})
		}
		if r.Chance(25) {
			// the same single-letter tag twice with a value nobody else carries, then a further tag
			u := "u" + strconv.Itoa(len(ids))
			tags = append(tags, []string{"t", u}, []string{"t", u}, []string{"t", "v"})
		}
		regular = append(regular, add(common.JEvent{PK: common.Pick(r, []string{"pa", "pb"}), TS: ts(), Kind: 1, Tags: tags}))
	}
	// deletion requests and their targets
	for k := r.Intn(3); k > 0; k-- {
		e := common.JEvent{PK: common.Pick(r, []string{"pa", "pa", "pb"}), TS: ts(), Kind: 5}
		for j := 1 + r.Intn(2); j > 0; j-- {
			switch r.Intn(4) {
			case 0, 1:
				e.Tags = append(e.Tags, []string{"e", common.Pick(r, regular)})
			case 2:
				if len(addressable) > 0 {
					e.Tags = append(e.Tags, []string{"e", common.Pick(r, addressable)})
				} else {
					e.Tags = append(e.Tags, []string{"e", common.Pick(r, ids)})
				}
			case 3:
				e.Tags = append(e.Tags, []string{"a", "30000:" + e.PK + ":" + common.Pick(r, []string{"x", "x", "y"})})
			}
		}
		add(e)
	}
	// a deletion request that names an earlier deletion request of the pool first, then a further target
	if r.Chance(40) {
		var k5 []string
		for _, id := range ids {
			if pool[id].Kind == 5 {
				k5 = append(k5, id)
			}
		}
		if len(k5) == 0 {
			k5 = append(k5, add(common.JEvent{PK: "pa", TS: ts(), Kind: 5, Tags: [][]string{{"e", common.Pick(r, regular)}}}))
		}
		if len(k5) > 0 {
			first := common.Pick(r, k5)
			if f := pool[first]; len(f.Tags) < 2 {
				// the named request names two things itself
				f.Tags = append(f.Tags, []string{"a", "30000:" + f.PK + ":y"}, []string{"e", common.Pick(r, regular)})
				pool[first] = f
			}
			e := common.JEvent{PK: pool[first].PK, TS: ts(), Kind: 5, Tags: [][]string{{"e", first}, {"e", common.Pick(r, regular)}}}
			if r.Chance(40) {
				e.Tags = append(e.Tags, []string{"a", "30000:" + e.PK + ":x"})
			}
			add(e)
		}
	}
	if r.Chance(15) {
		add(common.JEvent{PK: "pa", TS: ts(), Kind: 20000})
	}
	return pool, ids
}

func linGenFilters(r *common.Rand, ids []string) []common.JFilter {
	one := func() common.JFilter {
		var f common.JFilter
		switch r.Intn(8) {
		case 0, 1, 2: // match everything
		case 3:
			f.Kinds = common.Ptr([]int64{common.Pick(r, []int64{1, 5, 30000, 10000})})
		case 4:
			f.Authors = common.Ptr([]string{common.Pick(r, []string{"pa", "pb"})})
		case 5:
			f.IDs = common.Ptr([]string{common.Pick(r, ids), common.Pick(r, ids)})
		case 6:
			f.Tags = common.Ptr([]common.JTagCond{{Name: common.Pick(r, []string{"d", "t", "e"}), Vals: []string{common.Pick(r, []string{"x", "v", ids[0]})}}})
		case 7:
			if r.Bool() {
				// two conditions, one of them single-valued (the candidates of one are cut down by the other)
				f.Authors = common.Ptr([]string{common.Pick(r, []string{"pa", "pb"})})
				f.Kinds = common.Ptr([]int64{common.Pick(r, []int64{1, 5, 30000, 10000})})
				break
			}
			f.Since = common.Ptr(int64(r.Intn(5)))
			if r.Chance(50) {
				f.Until = common.Ptr(int64(1 + r.Intn(5)))
			}
		}
		if r.Chance(30) {
			f.Limit = common.Ptr(int64(r.Intn(3)))
		}
		return f
	}
	fs := []common.JFilter{one()}
	if r.Chance(30) {
		fs = append(fs, one())
	}
	return fs
}

func linGenOp(r *common.Rand, ids []string, t int) linOp {
	op := linOp{T: t, Noise: r.Intn(6), Late: r.Chance(50), Out: []string{}}
	switch x := r.Intn(100); {
	case x < 58:
		op.K = "add"
		op.E = common.Pick(r, ids)
	case x < 90:
		op.K = "find"
		op.Fs = linGenFilters(r, ids)
	default:
		op.K = "len"
	}
	return op
}

const linMaxOps = 10

func linGen(r *common.Rand, idx int) linCase {
	c := linCase{Idx: idx, Cap: 1 + r.Intn(4), Mode: "direct"}
	if r.Chance(30) {
		c.Mode = "session"
	}
	var ids []string
	c.Pool, ids = linGenPool(r)
	if r.Chance(6) {
		// safeMap under the race detector: concurrent RouterHandler sessions (registry = nested safeMaps);
		// no store operations are recorded, only a race report can make this history fail
		c.Mode = "router"
		c.Cap = 2 + r.Intn(3) // number of sessions
		c.Ops = []linOp{}
		return c
	}
	// sequential prefix: a few insertions so that the concurrent part meets a populated store
	for k := r.Intn(4); k > 0; k-- {
		c.Ops = append(c.Ops, linOp{T: 0, K: "add", E: common.Pick(r, ids), Out: []string{}})
	}
	nthreads := 2 + r.Intn(7)
	per := make([]int, nthreads)
	total := len(c.Ops)
	for i := range per {
		per[i] = 1
		total++
	}
	for total > linMaxOps { // drop whole threads, keeping at least two
		if nthreads > 2 {
			nthreads--
			per = per[:nthreads]
			total--
		} else {
			c.Ops = c.Ops[:len(c.Ops)-1]
			total--
		}
	}
	for tries := 0; tries < 12 && total < linMaxOps; tries++ {
		i := r.Intn(nthreads)
		if per[i] < 3 && r.Chance(60) {
			per[i]++
			total++
		}
	}
	for t := 0; t < nthreads; t++ {
		for k := 0; k < per[t]; k++ {
			c.Ops = append(c.Ops, linGenOp(r, ids, t+1))
		}
	}
	return c
}

// ---------------------------------------------------------------------------
// running one history

func linNoise(k int) {
	switch k {
	case 2:
		runtime.Gosched()
	case 3:
		x := 0
		for i := 0; i < 300; i++ {
			x += i
		}
		_ = x
	case 4:
		for i := 0; i < 20; i++ {
			runtime.Gosched()
		}
	case 5:
		time.Sleep(time.Microsecond)
	}
}

type linSession struct {
	send   chan mocrelay.ServerMsg
	recv   chan mocrelay.ClientMsg
	cancel context.CancelFunc
	done   chan error
}

func linNext(s *linSession) mocrelay.ServerMsg {
	select {
	case m := <-s.send:
		return m
	case <-time.After(10 * time.Second):
		panic("no reply from the CacheHandler session within 10s")
	}
}

// linRunRouter: Cap concurrent sessions on one RouterHandler subscribe, publish, unsubscribe and
// leave while another goroutine walks the registry (safeMap.Loop).
func linRunRouter(c *linCase) {
	router := mocrelay.NewRouterHandler(16)
	var evs []*mocrelay.Event
	for _, je := range c.Pool {
		evs = append(evs, je.ToEvent())
	}
	start := make(chan struct{})
	var wg sync.WaitGroup
	for i := 0; i < c.Cap; i++ {
		wg.Add(1)
		go func() {
			defer wg.Done()
			ctx, cancel := context.WithCancel(context.Background())
			s := &linSession{send: make(chan mocrelay.ServerMsg, 256), recv: make(chan mocrelay.ClientMsg), cancel: cancel, done: make(chan error, 1)}
			go func() { s.done <- router.ServeNostr(ctx, s.send, s.recv) }()
			waitFor := func(pred func(mocrelay.ServerMsg) bool) {
				for !pred(linNext(s)) {
				}
			}
			<-start
			sub := "s" + strconv.Itoa(i)
			s.recv <- &mocrelay.ClientReqMsg{SubscriptionID: sub, ReqFilters: []*mocrelay.ReqFilter{{}}}
			waitFor(func(m mocrelay.ServerMsg) bool { _, ok := m.(*mocrelay.ServerEOSEMsg); return ok })
			for _, ev := range evs[:1+i%len(evs)] {
				s.recv <- &mocrelay.ClientEventMsg{Event: ev}
				waitFor(func(m mocrelay.ServerMsg) bool { _, ok := m.(*mocrelay.ServerOKMsg); return ok })
			}
			if i%2 == 0 {
				s.recv <- &mocrelay.ClientCloseMsg{SubscriptionID: sub}
				s.recv <- &mocrelay.ClientReqMsg{SubscriptionID: sub + "b", ReqFilters: []*mocrelay.ReqFilter{{}}}
				waitFor(func(m mocrelay.ServerMsg) bool { _, ok := m.(*mocrelay.ServerEOSEMsg); return ok })
			}
			s.cancel()
			<-s.done
		}()
	}
	wg.Add(1)
	go func() {
		defer wg.Done()
		<-start
		for k := 0; k < 4; k++ {
			_ = mocrelay.VerifRouterRegistrySize(router)
			_ = mocrelay.VerifRouterSubscriptionCount(router)
			runtime.Gosched()
		}
	}()
	close(start)
	wg.Wait()
}

func linRun(c *linCase) {
	if c.Mode == "router" {
		linRunRouter(c)
		return
	}
	var clock atomic.Int64
	var cache *mocrelay.EventCache
	var handler mocrelay.CacheHandler
	if c.Mode == "session" {
		handler = mocrelay.NewCacheHandler(c.Cap)
		cache = mocrelay.VerifCacheOf(handler)
	} else {
		cache = mocrelay.NewEventCache(c.Cap)
	}
	do := func(op *linOp, s *linSession) {
		defer func() {
			if r := recover(); r != nil {
				op.Panic = fmt.Sprint(r)
				op.Resp = clock.Add(1)
			}
		}()
		var ev *mocrelay.Event
		var fs []*mocrelay.ReqFilter
		switch op.K {
		case "add": // a fresh pointer per offer, as a separate decode would give
			je, ok := c.Pool[op.E]
			if !ok {
				common.Fatalf("unknown pool event %q", op.E)
			}
			ev = je.ToEvent()
		case "find":
			fs = common.ToFilters(op.Fs)
		}
		if !op.Late {
			linNoise(op.Noise)
		}
		op.Inv = clock.Add(1)
		if op.Late {
			linNoise(op.Noise)
		}
		switch {
		case op.K == "add" && s == nil:
			op.Added = cache.Add(ev)
		case op.K == "add":
			s.recv <- &mocrelay.ClientEventMsg{Event: ev}
			ok, isOK := linNext(s).(*mocrelay.ServerOKMsg)
			if !isOK {
				panic("EVENT not answered by OK")
			}
			op.Added = ok.Accepted
		case op.K == "find" && s == nil:
			op.Out = idsOfLin(cache.Find(fs))
		case op.K == "find":
			s.recv <- &mocrelay.ClientReqMsg{SubscriptionID: "s", ReqFilters: fs}
			out := []string{}
		L:
			for {
				switch m := linNext(s).(type) {
				case *mocrelay.ServerEventMsg:
					out = append(out, m.Event.ID)
				case *mocrelay.ServerEOSEMsg:
					break L
				default:
					panic("REQ answered by something else than EVENT/EOSE")
				}
			}
			op.Out = out
		case op.K == "len":
			op.N = cache.Len()
		}
		op.Resp = clock.Add(1)
		if op.K == "find" && !common.FiltersIntact(fs, op.Fs) {
			op.Panic = "the query rewrote the filters it was given"
		}
	}

	// sequential prefix
	i := 0
	for ; i < len(c.Ops) && c.Ops[i].T == 0; i++ {
		do(&c.Ops[i], nil)
	}
	// concurrent part
	byThread := map[int][]*linOp{}
	var order []int
	for ; i < len(c.Ops); i++ {
		t := c.Ops[i].T
		if _, ok := byThread[t]; !ok {
			order = append(order, t)
		}
		byThread[t] = append(byThread[t], &c.Ops[i])
	}
	start := make(chan struct{})
	var arrived atomic.Int64
	nthreads := int64(len(order))
	var wg sync.WaitGroup
	for _, t := range order {
		ops := byThread[t]
		var s *linSession
		if c.Mode == "session" {
			ctx, cancel := context.WithCancel(context.Background())
			s = &linSession{send: make(chan mocrelay.ServerMsg, 64), recv: make(chan mocrelay.ClientMsg), cancel: cancel, done: make(chan error, 1)}
			go func() { s.done <- handler.ServeNostr(ctx, s.send, s.recv) }()
		}
		wg.Add(1)
		go func() {
			defer wg.Done()
			<-start
			// second barrier: spin until everybody runs, so that the first operations really collide
			arrived.Add(1)
			for spin := 0; arrived.Load() < nthreads && spin < 200000; spin++ {
				if spin%64 == 63 {
					runtime.Gosched()
				}
			}
			for _, op := range ops {
				do(op, s)
			}
			if s != nil {
				s.cancel()
				<-s.done
			}
		}()
	}
	close(start)
	wg.Wait()
}

func idsOfLin(evs []*mocrelay.Event) []string {
	out := make([]string, len(evs))
	for i, e := range evs {
		out[i] = e.ID
	}
	return out
}

// ---------------------------------------------------------------------------
// child: runs cases [from, n), one line per finished history, written through at once

func linChildMain(seed uint64, from, n int, outPath string) {
	f, err := os.Create(outPath)
	if err != nil {
		common.Fatalf("child: %v", err)
	}
	defer f.Close()
	root := common.NewRand(seed)
	for i := from; i < n; i++ {
		c := linGen(root.Fork(uint64(i)), i)
		watchdog := time.AfterFunc(30*time.Second, func() {
			fmt.Fprintf(os.Stderr, "C15 WATCHDOG: history %d did not finish within 30s (deadlock?)\n", i)
			buf := make([]byte, 1<<16)
			os.Stderr.Write(buf[:runtime.Stack(buf, true)])
			os.Exit(67)
		})
		linRun(&c)
		watchdog.Stop()
		b, err := json.Marshal(c)
		if err != nil {
			common.Fatalf("child: %v", err)
		}
		if _, err := f.Write(append(b, '\n')); err != nil {
			common.Fatalf("child: %v", err)
		}
	}
}

func linExcerpt(stderr string) string {
	if i := strings.Index(stderr, "WARNING: DATA RACE"); i >= 0 {
		stderr = stderr[i:]
	} else if i := strings.Index(stderr, "fatal error:"); i >= 0 {
		stderr = stderr[i:]
	} else if i := strings.Index(stderr, "C15 WATCHDOG"); i >= 0 {
		stderr = stderr[i:]
	}
	if len(stderr) > 3500 {
		stderr = stderr[:3500] + " ..."
	}
	return stderr
}

const linMaxRestarts = 3

// set by main.go: where the parent's output goes (the children write next to it)
var linOutPath string

func init() {
	subcmds["c15"] = func(seed uint64, n int, out *common.Out, replay string) {
		if replay != "" {
			for _, raw := range common.ReadLines(replay) {
				var c linCase
				if err := json.Unmarshal(raw, &c); err != nil {
					common.Fatalf("bad replay case: %v", err)
				}
				out.Emit(raw) // the recorded history, unchanged
			}
			return
		}
		root := common.NewRand(seed)
		self, err := os.Executable()
		if err != nil {
			common.Fatalf("cannot find my own binary: %v", err)
		}
		tmp := linOutPath + ".child"
		defer os.Remove(tmp)
		from, restarts := 0, 0
		for from < n {
			cmd := exec.Command(self, "c15", "-child", "-seed", strconv.FormatUint(seed, 10),
				"-from", strconv.Itoa(from), "-n", strconv.Itoa(n), "-out", tmp)
			cmd.Env = append(os.Environ(), "GORACE=halt_on_error=1 exitcode=66")
			var stderr bytes.Buffer
			cmd.Stderr = &stderr
			runErr := cmd.Run()
			done := 0
			if _, err := os.Stat(tmp); err == nil {
				for _, raw := range common.ReadLines(tmp) {
					if !json.Valid(raw) { // a line cut off by the death of the child
						break
					}
					out.Emit(raw)
					done++
				}
			}
			if runErr == nil {
				if from+done != n {
					common.Fatalf("child finished after %d of %d histories", from+done, n)
				}
				return
			}
			// the child died while history from+done was running
			idx := from + done
			if idx >= n {
				common.Fatalf("child failed after its last history: %v\n%s", runErr, stderr.String())
			}
			c := linGen(root.Fork(uint64(idx)), idx)
			c.Race = fmt.Sprintf("child stopped (%v) during this history: %s", runErr, linExcerpt(stderr.String()))
			out.Emit(c)
			fmt.Fprintf(os.Stderr, "c15: history %d stopped the child: %v\n", idx, runErr)
			restarts++
			if restarts >= linMaxRestarts {
				fmt.Fprintf(os.Stderr, "c15: %d aborted children, not generating further histories\n", restarts)
				return
			}
			from = idx + 1
		}
	}
}
