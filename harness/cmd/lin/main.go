// lin harness (C15): drives ONE real EventCache from several goroutines; built with -race.
// usage: lin <sub-command> -seed N -n N -out FILE [-replay FILE]
// (copy of cmd/core/main.go plus the two flags of the re-exec'd child, see c15.go)
package main

import (
	"flag"
	"fmt"
	"os"

	"verif/harness/common"
)

type subcmd func(seed uint64, n int, out *common.Out, replay string)

var subcmds = map[string]subcmd{}

func main() {
	if len(os.Args) < 2 {
		common.Fatalf("usage: lin <sub-command> flags")
	}
	name := os.Args[1]
	fs := flag.NewFlagSet(name, flag.ExitOnError)
	seed := fs.Uint64("seed", 1, "PRNG seed")
	n := fs.Int("n", 100, "number of cases")
	outp := fs.String("out", "", "output JSONL")
	replay := fs.String("replay", "", "JSONL of recorded cases to echo (concurrent histories are re-judged, not re-run)")
	child := fs.Bool("child", false, "internal: run cases [from, n) in this process and write them unbuffered")
	from := fs.Int("from", 0, "internal: first case index of a child")
	fs.Parse(os.Args[2:])
	f, ok := subcmds[name]
	if !ok {
		common.Fatalf("unknown sub-command %s", name)
	}
	if *outp == "" {
		common.Fatalf("-out required")
	}
	linOutPath = *outp
	if *child {
		linChildMain(*seed, *from, *n, *outp)
		return
	}
	out := common.NewOut(*outp)
	defer out.Close()
	f(*seed, *n, out, *replay)
	fmt.Fprintf(os.Stderr, "%s: %d cases\n", name, out.N)
}
