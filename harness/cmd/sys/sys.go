package main

// SYS: one connection through the REAL composition that cmd/mocrelay/main.go
// assembles,
//
//	h := NewMergeHandler(NewCacheHandler(cap), NewRouterHandler(100), sqliteHandler)
//	h  = NewPrometheusMiddleware(freshRegistry)(h)
//
// with an in-memory SQLite database on one connection and EventBulkInsertNum = 1.
//
// The three children answer concurrently, so the interleaving of their replies
// is the Go scheduler's; the harness does not try to fix it.  It feeds ONE
// client message at a time and closes the window of a message with a COUNT
// sentinel that carries a unique subscription id: the merged reply to the
// sentinel needs the COUNT reply of every child, and a child answers the
// sentinel only after it has sent all its replies to the message before (a
// child is a sequential handler), so when the sentinel's reply arrives every
// direct reply to the message has been merged.  Only live events that the
// router child's queue forwarder has not handed over yet can arrive later;
// they are recorded in the window in which they arrive (the judge allows
// that); at the end of a session the router child's queue is flushed by a
// marker event (see sysRun): the harness reads until every live copy of the
// marker has arrived (one per open subscription it matches, not only the
// marker's own subscription), so nothing is left behind.
//
// Auxiliary observations:
//   - for a REQ, the SQLite child's own answer, recorded by a pass-through tap
//     between that child and the merge session (sysTap: it forwards every
//     message unchanged and in order, one at a time).  The order among equal
//     created_at is SQLite's and the judge takes the answer as given.  An
//     earlier version predicted the answer by running queryEvent on the same
//     database right before the REQ; that is NOT the same answer: the SQL text
//     depends on the iteration order of the filter's tag map (#p before #t or
//     the other way round), and SQLite breaks a tie among equal created_at at
//     a limit differently for the two texts, so two executions of one query on
//     one database can return different events (observed: 6% of executions);
//     whether the child's query failed is read off its log line;
//   - after an EVENT, the harness waits until the background inserter has
//     dealt with the event (the handler logs "inserted events" after every
//     batch; an id the inserter saw recently is skipped without a log line,
//     which the harness predicts with the same two-entry LRU), then takes the
//     match-everything listing of the cache.

import (
	"context"
	"database/sql"
	"encoding/json"
	"fmt"
	"log/slog"
	"strings"
	"sync"
	"sync/atomic"
	"time"

	"github.com/high-moctane/mocrelay"
	"github.com/high-moctane/mocrelay/handler/sqlite"
	mocprom "github.com/high-moctane/mocrelay/middleware/prometheus"
	_ "github.com/mattn/go-sqlite3"
	"github.com/prometheus/client_golang/prometheus"
	"verif/harness/common"
)

func init() { subcmds["sys"] = sysMain }

const sysTimeout = 3 * time.Second
const sysRouterBuf = 100
const sysFlushSub = "\x01flush"

// ---------------------------------------------------------------------------
// JSON shapes (those of C16, so that the printing code is the same)

type sysMsg struct {
	K   string           `json:"k"` // event | req | close | auth | count
	E   *common.JEvent   `json:"e"`
	Sub string           `json:"sub"`
	Fs  []common.JFilter `json:"fs"`
}

func (m sysMsg) MarshalJSON() ([]byte, error) {
	o := map[string]any{"k": m.K}
	switch m.K {
	case "event", "auth":
		o["e"] = m.E
	case "req", "count":
		o["sub"] = m.Sub
		fs := m.Fs
		if fs == nil {
			fs = []common.JFilter{}
		}
		o["fs"] = fs
	case "close":
		o["sub"] = m.Sub
	}
	return json.Marshal(o)
}

func (m sysMsg) toClient() mocrelay.ClientMsg {
	switch m.K {
	case "event":
		if m.E == nil {
			common.Fatalf("sys: EVENT message without an event")
		}
		return &mocrelay.ClientEventMsg{Event: m.E.ToEvent()}
	case "auth":
		if m.E == nil {
			common.Fatalf("sys: AUTH message without an event")
		}
		return &mocrelay.ClientAuthMsg{Event: m.E.ToEvent()}
	case "req":
		return &mocrelay.ClientReqMsg{SubscriptionID: m.Sub, ReqFilters: common.ToFilters(m.Fs)}
	case "count":
		return &mocrelay.ClientCountMsg{SubscriptionID: m.Sub, ReqFilters: common.ToFilters(m.Fs)}
	case "close":
		return &mocrelay.ClientCloseMsg{SubscriptionID: m.Sub}
	}
	common.Fatalf("sys: unknown message kind %q", m.K)
	return nil
}

type sysReply struct {
	K         string
	ID        string
	Acc       bool
	Prefix    string
	Msg       string
	Sub       string
	E         *common.JEvent
	N         uint64
	Approx    *bool
	Challenge string
}

func (r sysReply) MarshalJSON() ([]byte, error) {
	o := map[string]any{"k": r.K}
	switch r.K {
	case "ok":
		o["id"], o["acc"], o["prefix"], o["msg"] = r.ID, r.Acc, r.Prefix, r.Msg
	case "event":
		o["sub"], o["e"] = r.Sub, r.E
	case "eose":
		o["sub"] = r.Sub
	case "count":
		o["sub"], o["n"], o["approx"] = r.Sub, r.N, r.Approx
	case "closed":
		o["sub"], o["prefix"], o["msg"] = r.Sub, r.Prefix, r.Msg
	case "notice":
		o["msg"] = r.Msg
	case "auth":
		o["challenge"] = r.Challenge
	}
	return json.Marshal(o)
}

func sysFromServer(m mocrelay.ServerMsg) (sysReply, bool) {
	switch m := m.(type) {
	case *mocrelay.ServerOKMsg:
		return sysReply{K: "ok", ID: m.EventID, Acc: m.Accepted, Prefix: m.MsgPrefix, Msg: m.Msg}, true
	case *mocrelay.ServerEventMsg:
		if m.Event == nil {
			return sysReply{}, false
		}
		je := common.FromEvent(m.Event)
		return sysReply{K: "event", Sub: m.SubscriptionID, E: &je}, true
	case *mocrelay.ServerEOSEMsg:
		return sysReply{K: "eose", Sub: m.SubscriptionID}, true
	case *mocrelay.ServerCountMsg:
		var a *bool
		if m.Approximate != nil {
			a = common.Ptr(*m.Approximate)
		}
		return sysReply{K: "count", Sub: m.SubscriptionID, N: m.Count, Approx: a}, true
	case *mocrelay.ServerClosedMsg:
		return sysReply{K: "closed", Sub: m.SubscriptionID, Prefix: m.MsgPrefix, Msg: m.Msg}, true
	case *mocrelay.ServerNoticeMsg:
		return sysReply{K: "notice", Msg: m.Message}, true
	case *mocrelay.ServerAuthMsg:
		return sysReply{K: "auth", Challenge: m.Challenge}, true
	}
	return sysReply{}, false
}

func sysFromEvents(es []*mocrelay.Event) []common.JEvent {
	out := make([]common.JEvent, 0, len(es))
	for _, e := range es {
		out = append(out, common.FromEvent(e))
	}
	return out
}

type sysWin struct {
	M     sysMsg          `json:"m"`
	Sent  string          `json:"sent"`  // subscription id of the COUNT sentinel
	Sq    []common.JEvent `json:"sq"`    // REQ: the SQLite child's own answer (recorded by the tap)
	SqErr bool            `json:"sqerr"` // REQ: the child's query failed (its log line)
	List  []common.JEvent `json:"list"`  // EVENT: the cache's listing afterwards
	Obs   []sysReply      `json:"obs"`   // everything received up to and including the sentinel's reply
}

type sysCase struct {
	Cap  int        `json:"cap"`
	Msgs []sysMsg   `json:"msgs"` // the input (what a replay re-runs)
	Wins []sysWin   `json:"wins"`
	Tail []sysReply `json:"tail"` // received after the last window
	Err  string     `json:"err"`
}

// ---------------------------------------------------------------------------
// counting the inserter's batches

type sysLogCounter struct{ n, qfail *atomic.Int64 }

func (h sysLogCounter) Enabled(context.Context, slog.Level) bool { return true }
func (h sysLogCounter) Handle(_ context.Context, r slog.Record) error {
	switch r.Message {
	case "inserted events":
		h.n.Add(1)
	case "failed to query events":
		h.qfail.Add(1)
	}
	return nil
}
func (h sysLogCounter) WithAttrs([]slog.Attr) slog.Handler { return h }
func (h sysLogCounter) WithGroup(string) slog.Handler      { return h }

// the inserter's LRU of 2*EventBulkInsertNum ids, most recently used first
type sysLRU struct {
	size int
	ids  []string
}

// seen reports whether the inserter skips id, and updates the recency order
// exactly like seen.Get / seen.Add in serveBulkInsert.
func (l *sysLRU) seen(id string) bool {
	for i, x := range l.ids {
		if x == id {
			copy(l.ids[1:i+1], l.ids[:i])
			l.ids[0] = id
			return true
		}
	}
	l.ids = append([]string{id}, l.ids...)
	if len(l.ids) > l.size {
		l.ids = l.ids[:l.size]
	}
	return false
}

// ---------------------------------------------------------------------------
// the tap on the SQLite child

// sysTap wraps a handler without changing what it does: the client messages go
// to the handler directly, every server message of the handler is recorded and
// then passed on, one at a time and in order (one goroutine, unbuffered
// channels).  For the merge session the child behind the tap is a child whose
// messages take one more hop; the composed model lets a child's messages be
// delayed arbitrarily anyway.
type sysTap struct {
	h   mocrelay.Handler
	mu  sync.Mutex
	log []mocrelay.ServerMsg
}

func (t *sysTap) ServeNostr(ctx context.Context, send chan<- mocrelay.ServerMsg, recv <-chan mocrelay.ClientMsg) error {
	ctx, cancel := context.WithCancel(ctx)
	defer cancel()
	inner := make(chan mocrelay.ServerMsg)
	go func() {
		for {
			select {
			case <-ctx.Done():
				return
			case m := <-inner:
				t.mu.Lock()
				t.log = append(t.log, m)
				t.mu.Unlock()
				select {
				case send <- m:
				case <-ctx.Done():
					return
				}
			}
		}
	}()
	return t.h.ServeNostr(ctx, inner, recv)
}

// take returns what the handler has sent since the last call.
func (t *sysTap) take() []mocrelay.ServerMsg {
	t.mu.Lock()
	defer t.mu.Unlock()
	out := t.log
	t.log = nil
	return out
}

// ---------------------------------------------------------------------------
// driving the session

type sysDriver struct {
	recv chan mocrelay.ClientMsg
	send chan mocrelay.ServerMsg
	dead chan string
	cur  []sysReply
	err  string
}

func sysStart(ctx context.Context, h mocrelay.Handler) *sysDriver {
	d := &sysDriver{
		recv: make(chan mocrelay.ClientMsg),
		send: make(chan mocrelay.ServerMsg),
		dead: make(chan string, 2),
	}
	go func() {
		defer func() {
			if r := recover(); r != nil {
				d.dead <- fmt.Sprint("panic in ServeNostr: ", r)
			}
		}()
		err := h.ServeNostr(ctx, d.send, d.recv)
		d.dead <- fmt.Sprint("ServeNostr returned: ", err)
	}()
	return d
}

func (d *sysDriver) record(s mocrelay.ServerMsg) bool {
	r, ok := sysFromServer(s)
	if !ok {
		d.err = fmt.Sprintf("unexpected server message %T", s)
		return false
	}
	d.cur = append(d.cur, r)
	return true
}

func (d *sysDriver) push(m mocrelay.ClientMsg) bool {
	t := time.NewTimer(sysTimeout)
	defer t.Stop()
	for {
		select {
		case d.recv <- m:
			return true
		case s := <-d.send:
			if !d.record(s) {
				return false
			}
		case why := <-d.dead:
			d.err = why
			return false
		case <-t.C:
			d.err = "timeout: the handler did not take a message"
			return false
		}
	}
}

func (d *sysDriver) await(sub string) bool {
	t := time.NewTimer(sysTimeout)
	defer t.Stop()
	for {
		select {
		case s := <-d.send:
			if !d.record(s) {
				return false
			}
			if c, ok := s.(*mocrelay.ServerCountMsg); ok && c.SubscriptionID == sub {
				return true
			}
		case why := <-d.dead:
			d.err = why
			return false
		case <-t.C:
			d.err = "timeout: the reply to the sentinel never came"
			return false
		}
	}
}

// awaitCopies reads until need EVENT messages carrying the event id have been
// received in d.cur (have of them were received before), or nothing has
// arrived for sysTimeout.  It reports whether all of them came.
func (d *sysDriver) awaitCopies(id string, have, need int) bool {
	for have < need {
		t := time.NewTimer(sysTimeout)
		select {
		case s := <-d.send:
			t.Stop()
			if !d.record(s) {
				return false
			}
			if e, ok := s.(*mocrelay.ServerEventMsg); ok && e.Event != nil && e.Event.ID == id {
				have++
			}
		case why := <-d.dead:
			t.Stop()
			d.err = why
			return false
		case <-t.C:
			return false
		}
	}
	return true
}

// stragglers collects what still arrives until nothing has arrived for a while.
func (d *sysDriver) stragglers(quiet time.Duration) {
	for {
		t := time.NewTimer(quiet)
		select {
		case s := <-d.send:
			t.Stop()
			if !d.record(s) {
				return
			}
		case why := <-d.dead:
			t.Stop()
			d.err = why
			return
		case <-t.C:
			return
		}
	}
}

// sysFlushCopies: how many live copies of the flush event (id ff.., pubkey fe.., kind 20000,
// created_at 1, no tags) the session is going to receive: one per subscription that is open
// at the end (the last REQ of an id counts, a CLOSE ends it) and has a filter the flush event
// satisfies.  Used only to know how long to keep reading at the end of a session, never to
// judge: too large a number costs one sysTimeout, too small a number falls back to the quiet
// period of stragglers.
func sysFlushCopies(session []sysMsg) int {
	id, pk := strings.Repeat("ff", 32), strings.Repeat("fe", 32)
	has := func(xs []string, x string) bool {
		for _, y := range xs {
			if y == x {
				return true
			}
		}
		return false
	}
	matches := func(f common.JFilter) bool {
		if f.IDs != nil && !has(*f.IDs, id) {
			return false
		}
		if f.Authors != nil && !has(*f.Authors, pk) {
			return false
		}
		if f.Kinds != nil {
			ok := false
			for _, k := range *f.Kinds {
				ok = ok || k == 20000
			}
			if !ok {
				return false
			}
		}
		if f.Tags != nil && len(*f.Tags) > 0 {
			return false // the flush event has no tags
		}
		if f.Since != nil && *f.Since > 1 {
			return false
		}
		if f.Until != nil && *f.Until < 1 {
			return false
		}
		return true
	}
	open := map[string][]common.JFilter{}
	for _, m := range session {
		switch m.K {
		case "req":
			open[m.Sub] = m.Fs
		case "close":
			delete(open, m.Sub)
		}
	}
	n := 0
	for _, fs := range open {
		for _, f := range fs {
			if matches(f) {
				n++
				break
			}
		}
	}
	return n
}

func sysRun(capacity int, msgs []sysMsg) (c sysCase) {
	c = sysCase{Cap: capacity, Msgs: msgs, Wins: []sysWin{}, Tail: []sysReply{}}
	if c.Msgs == nil {
		c.Msgs = []sysMsg{}
	}
	defer func() {
		if r := recover(); r != nil {
			c.Err = fmt.Sprint("panic: ", r)
		}
	}()
	ctx, cancel := context.WithCancel(context.Background())
	defer cancel()

	// exactly as cmd/mocrelay/main.go, but one connection and a private database
	db, err := sql.Open("sqlite3", ":memory:")
	if err != nil {
		c.Err = "open: " + err.Error()
		return
	}
	db.SetMaxOpenConns(1)
	defer db.Close()
	if err := db.Ping(); err != nil {
		c.Err = "ping: " + err.Error()
		return
	}
	var inserted, qfailed atomic.Int64
	logger := slog.New(sysLogCounter{n: &inserted, qfail: &qfailed})
	sqliteHandler, err := sqlite.NewSQLiteHandler(ctx, db, &sqlite.SQLiteHandlerOption{
		EventBulkInsertNum: 1, EventBulkInsertDur: time.Hour, MaxLimit: sqlite.NoLimit, Logger: logger})
	if err != nil {
		c.Err = "NewSQLiteHandler: " + err.Error()
		return
	}
	cacheHandler := mocrelay.NewCacheHandler(capacity)
	tap := &sysTap{h: sqliteHandler}
	h := mocrelay.NewMergeHandler(
		cacheHandler,
		mocrelay.NewRouterHandler(sysRouterBuf),
		tap,
	)
	reg := prometheus.NewRegistry()
	h = mocprom.NewPrometheusMiddleware(reg)(h)

	d := sysStart(ctx, h)
	lru := &sysLRU{size: 2}
	var want int64
	// the session proper, then the flush of the router child's queue: a REQ that only the
	// flush event matches, and that event (ephemeral: no store keeps it).  The queue is FIFO
	// and the merge session keeps each child's order, so when the flush event's live copies
	// have arrived (all of them: subscriptions of the session may match it too, see below)
	// every earlier live copy has.  The two messages are ordinary messages of the recorded
	// session (the judge treats them like the others).
	session := append([]sysMsg{}, c.Msgs...)
	flushEv := common.JEvent{ID: strings.Repeat("ff", 32), PK: strings.Repeat("fe", 32), TS: 1, Kind: 20000,
		Tags: [][]string{}, Content: "flush", Sig: strings.Repeat("fd", 64)}
	flushIDs := []string{flushEv.ID}
	session = append(session,
		sysMsg{K: "req", Sub: sysFlushSub, Fs: []common.JFilter{{IDs: &flushIDs}}},
		sysMsg{K: "event", E: &flushEv})
	for i, m := range session {
		w := sysWin{M: m, Sent: fmt.Sprintf("\x01end-%d", i), Sq: []common.JEvent{}, List: []common.JEvent{}, Obs: []sysReply{}}
		tap.take()
		qf0 := qfailed.Load()
		d.cur = []sysReply{}
		ok := d.push(m.toClient()) &&
			d.push(&mocrelay.ClientCountMsg{SubscriptionID: w.Sent, ReqFilters: []*mocrelay.ReqFilter{{}}}) &&
			d.await(w.Sent)
		w.Obs = d.cur
		if m.K == "req" {
			// the SQLite child has answered the sentinel, so its answer to the REQ is complete:
			// the events it sent for the subscription before its EOSE
			w.SqErr = qfailed.Load() != qf0
			evs := []*mocrelay.Event{}
			for _, sm := range tap.take() {
				if e, isEv := sm.(*mocrelay.ServerEventMsg); isEv && e.SubscriptionID == m.Sub && e.Event != nil {
					evs = append(evs, e.Event)
				} else if eo, isEose := sm.(*mocrelay.ServerEOSEMsg); isEose && eo.SubscriptionID == m.Sub {
					break
				}
			}
			w.Sq = sysFromEvents(evs)
		}
		if !ok {
			c.Wins = append(c.Wins, w)
			c.Err = d.err
			return
		}
		if m.K == "event" {
			if !lru.seen(m.E.ID) {
				want++
			}
			deadline := time.Now().Add(sysTimeout)
			for inserted.Load() < want {
				if time.Now().After(deadline) {
					c.Wins = append(c.Wins, w)
					c.Err = "timeout: the inserter never reported the batch"
					return
				}
				time.Sleep(20 * time.Microsecond)
			}
			w.List = sysFromEvents(mocrelay.VerifCacheOf(cacheHandler).Find([]*mocrelay.ReqFilter{{}}))
		}
		c.Wins = append(c.Wins, w)
	}
	// Wait for the live copies of the flush event.  The flush event is an ordinary event: the
	// router child queues one copy for EVERY open subscription it matches, in the iteration
	// order of a Go map, so the copy labelled sysFlushSub need not be the last one (a
	// subscription {"kinds":[20000]} or {} of the session gets one too).  The queue is FIFO:
	// when all copies of the flush event have arrived, every live copy of the session has.
	// How many there are is only a hint for how long to read (sysFlushCopies); the judge
	// decides from the recorded requests alone what was owed.  If fewer come within
	// sysTimeout the observation is recorded as it is; only a missing copy for sysFlushSub
	// itself means the protocol failed.
	d.cur = []sysReply{}
	have := 0
	for _, r := range c.Wins[len(c.Wins)-1].Obs {
		if r.K == "event" && r.E != nil && r.E.ID == flushEv.ID {
			have++
		}
	}
	d.awaitCopies(flushEv.ID, have, sysFlushCopies(session))
	flushed := false
	for _, r := range append(append([]sysReply{}, c.Wins[len(c.Wins)-1].Obs...), d.cur...) {
		if r.K == "event" && r.Sub == sysFlushSub {
			flushed = true
		}
	}
	if !flushed {
		c.Tail = d.cur
		if d.err == "" {
			d.err = "timeout: the flush event never came back"
		}
		c.Err = d.err
		return
	}
	d.stragglers(300 * time.Microsecond)
	c.Tail = d.cur
	if d.err != "" {
		c.Err = d.err
	}
	if inserted.Load() != want {
		c.Err = fmt.Sprintf("the inserter reported %d batches, %d expected", inserted.Load(), want)
	}
	return
}

// ---------------------------------------------------------------------------
// generator: gate-valid events and filters (after c16GenSqlPool / c16GenSqlFilter
// of cmd/sql/c16sql.go, the domain on which the relational model is validated)

var sysPKs = []string{strings.Repeat("a1", 32), strings.Repeat("b2", 32), strings.Repeat("c3", 32)}
var sysSigs = []string{strings.Repeat("5e", 64), strings.Repeat("6f", 64)}
var sysFree = []string{"", "v1", "v2"}
var sysD = []string{"", "a", "b"}
var sysContents = []string{"", "hello", "a\x00b", "astral \U0001F600", "line sep", "q\"b\\s/", "<&>"}

func sysID(i int) string { return strings.Repeat(fmt.Sprintf("%02x", 0x10+i), 32) }

func sysDOf(e common.JEvent) (string, bool) {
	for _, t := range e.Tags {
		if len(t) >= 1 && t[0] == "d" {
			if len(t) > 1 {
				return t[1], true
			}
			return "", true
		}
	}
	return "", false
}

func sysGenPool(r *common.Rand, np int) []common.JEvent {
	pool := make([]common.JEvent, np)
	plain := func() [][]string {
		tags := [][]string{}
		for k := r.Intn(4); k > 0; k-- {
			switch r.Intn(5) {
			case 0, 1:
				tags = append(tags, []string{"e", sysID(r.Intn(np))})
			case 2:
				tags = append(tags, []string{"p", common.Pick(r, sysPKs)})
			case 3:
				tags = append(tags, []string{"t", common.Pick(r, sysFree)})
			default:
				tags = append(tags, []string{"X", common.Pick(r, sysFree)})
			}
		}
		return tags
	}
	for i := 0; i < np; i++ {
		e := common.JEvent{ID: sysID(i), PK: common.Pick(r, sysPKs), TS: int64(r.Intn(7)), Tags: [][]string{},
			Content: common.Pick(r, sysContents), Sig: common.Pick(r, sysSigs)}
		switch x := r.Intn(100); {
		case x < 34:
			e.Kind = 1
			e.Tags = plain()
		case x < 52:
			e.Kind = common.Pick(r, []int64{0, 3, 10000})
			e.Tags = plain()
		case x < 72:
			e.Kind = 30000
			e.Tags = plain()
			dt := []string{"d", common.Pick(r, sysD)}
			pos := r.Intn(len(e.Tags) + 1)
			e.Tags = append(e.Tags[:pos], append([][]string{dt}, e.Tags[pos:]...)...)
		case x < 80:
			e.Kind = 20000
			e.Tags = plain()
		default:
			e.Kind = 5
		}
		pool[i] = e
	}
	// deletion requests: two-element e / a tags; an e reference names a non-ephemeral event
	for i := range pool {
		e := &pool[i]
		if e.Kind != 5 {
			continue
		}
		for k := 1 + r.Intn(3); k > 0; k-- {
			tgt := pool[r.Intn(np)]
			if r.Chance(75) {
				e.PK = tgt.PK
			}
			if r.Chance(55) && tgt.Kind != 20000 {
				e.Tags = append(e.Tags, []string{"e", tgt.ID})
			} else {
				dv, ok := sysDOf(tgt)
				if !ok {
					dv = common.Pick(r, sysD)
				}
				e.Tags = append(e.Tags, []string{"a", "30000:" + tgt.PK + ":" + dv})
			}
		}
	}
	return pool
}

func sysSubset(r *common.Rand, xs []string, lo, hi int) []string {
	out := []string{}
	for k := lo + r.Intn(hi-lo+1); k > 0; k-- {
		out = append(out, common.Pick(r, xs))
	}
	return out
}

func sysGenFilter(r *common.Rand, ids []string, sel int) common.JFilter {
	var f common.JFilter
	if r.Chance(sel) {
		f.IDs = common.Ptr(sysSubset(r, ids, 1, 3))
	}
	if r.Chance(sel) {
		f.Authors = common.Ptr(sysSubset(r, sysPKs, 1, 2))
	}
	if r.Chance(sel) {
		ks := []int64{}
		for k := 1 + r.Intn(3); k > 0; k-- {
			ks = append(ks, common.Pick(r, []int64{0, 1, 3, 5, 10000, 20000, 30000}))
		}
		f.Kinds = &ks
	}
	if r.Chance(sel) {
		tcs := []common.JTagCond{}
		names := []string{"e", "p", "t", "X"}
		for k := 1 + r.Intn(2); k > 0; k-- {
			i := r.Intn(len(names))
			var vals []string
			switch names[i] {
			case "e":
				vals = sysSubset(r, ids, 0, 2)
			case "p":
				vals = sysSubset(r, sysPKs, 0, 2)
			default:
				vals = sysSubset(r, sysFree, 0, 2)
			}
			tcs = append(tcs, common.JTagCond{Name: names[i], Vals: vals})
			names = append(names[:i], names[i+1:]...)
		}
		f.Tags = &tcs
	}
	if r.Chance(sel) {
		f.Since = common.Ptr(int64(r.Intn(8)))
	}
	if r.Chance(sel) {
		f.Until = common.Ptr(int64(r.Intn(8)))
	}
	if r.Chance(40) {
		f.Limit = common.Ptr(int64(1 + r.Intn(4)))
	}
	return f
}

func sysGenFilters(r *common.Rand, ids []string) []common.JFilter {
	nf := 1 + r.Intn(3) // never an empty list (the gate rejects it)
	sel := []int{5, 15, 35}[r.Intn(3)]
	fs := []common.JFilter{}
	for k := 0; k < nf; k++ {
		fs = append(fs, sysGenFilter(r, ids, sel))
	}
	return fs
}

func sysGenCase(r *common.Rand) (int, []sysMsg) {
	capacity := 100
	if !r.Chance(30) {
		capacity = 1 + r.Intn(6)
	}
	np := 2 + r.Intn(8)
	pool := sysGenPool(r, np)
	ids := make([]string, np)
	for i := range ids {
		ids[i] = sysID(i)
	}
	subs := []string{"s1", "s2", ""}
	n := 1 + r.Intn(16)
	msgs := []sysMsg{}
	nauth := 0
	for i := 0; i < n; i++ {
		switch x := r.Intn(100); {
		case x < 46:
			e := pool[r.Intn(np)]
			msgs = append(msgs, sysMsg{K: "event", E: &e})
		case x < 78:
			msgs = append(msgs, sysMsg{K: "req", Sub: common.Pick(r, subs), Fs: sysGenFilters(r, ids)})
		case x < 85:
			msgs = append(msgs, sysMsg{K: "count", Sub: common.Pick(r, subs), Fs: sysGenFilters(r, ids)})
		case x < 95:
			msgs = append(msgs, sysMsg{K: "close", Sub: common.Pick(r, subs)})
		default:
			a := common.JEvent{ID: fmt.Sprintf("a0%062x", nauth), PK: common.Pick(r, sysPKs), TS: int64(r.Intn(7)), Kind: 22242,
				Tags: [][]string{{"relay", "wss://relay.example"}, {"challenge", "c"}}, Content: "", Sig: common.Pick(r, sysSigs)}
			nauth++
			msgs = append(msgs, sysMsg{K: "auth", E: &a})
		}
	}
	return capacity, msgs
}

// ---------------------------------------------------------------------------

type sysInput struct {
	Cap  int      `json:"cap"`
	Msgs []sysMsg `json:"msgs"`
}

func sysMain(seed uint64, n int, out *common.Out, replay string) {
	var inputs []sysInput
	if replay != "" {
		for _, raw := range common.ReadLines(replay) {
			var in sysInput
			if err := json.Unmarshal(raw, &in); err != nil {
				common.Fatalf("sys: bad replay line: %v", err)
			}
			if in.Cap == 0 {
				in.Cap = 100
			}
			inputs = append(inputs, in)
		}
	} else {
		root := common.NewRand(seed)
		for i := 0; i < n; i++ {
			capacity, msgs := sysGenCase(root.Fork(uint64(i)))
			inputs = append(inputs, sysInput{Cap: capacity, Msgs: msgs})
		}
	}
	// the cases are independent (own handlers, own database): a few at a time
	results := make([]sysCase, len(inputs))
	var wg sync.WaitGroup
	sem := make(chan struct{}, 6)
	for i := range inputs {
		wg.Add(1)
		sem <- struct{}{}
		go func(i int) {
			defer wg.Done()
			defer func() { <-sem }()
			results[i] = sysRun(inputs[i].Cap, inputs[i].Msgs)
		}(i)
	}
	wg.Wait()
	for _, c := range results {
		out.Emit(c)
	}
}
