// sys harness: the composed relay of cmd/mocrelay (cache + router + SQLite under the merge handler, Prometheus middleware).
// usage: sys <sub-command> -seed N -n N -out FILE [-replay FILE]
package main

import (
	"flag"
	"fmt"
	"os"

	"verif/harness/common"
)

type subcmd func(seed uint64, n int, out *common.Out, replay string)

var subcmds = map[string]subcmd{}

func main() {
	if len(os.Args) < 2 {
		common.Fatalf("usage: sys <sub-command> flags")
	}
	name := os.Args[1]
	fs := flag.NewFlagSet(name, flag.ExitOnError)
	seed := fs.Uint64("seed", 1, "PRNG seed")
	n := fs.Int("n", 100, "number of cases")
	outp := fs.String("out", "", "output JSONL")
	replay := fs.String("replay", "", "JSONL of inputs to re-run instead of generating")
	fs.Parse(os.Args[2:])
	f, ok := subcmds[name]
	if !ok {
		common.Fatalf("unknown sub-command %s", name)
	}
	if *outp == "" {
		common.Fatalf("-out required")
	}
	out := common.NewOut(*outp)
	defer out.Close()
	f(*seed, *n, out, *replay)
	fmt.Fprintf(os.Stderr, "%s: %d cases\n", name, out.N)
}
