package main

// C07: one real RouterHandler shared by several sessions (ServeNostr with
// its own channels each).
//
//   det   a scripted multi-connection history executed one client operation
//         at a time, with a short settle between operations; readers can be
//         paused (the client stops receiving) and resumed by the script.
//   conc  2..8 connections issue REQ/CLOSE/EVENT/COUNT/disconnect
//         concurrently, each at its own pace, with readers of different
//         speeds (fast, jittery, bursty, stalled).
//
// Connections need not all exist from the start: a connection whose script
// has an "open" operation connects (its ServeNostr is started) only then --
// in a det script at that point of the script, in a conc case when every
// client of the first generation has finished its script (connection
// churn on one router).  A "disc" with st=true is the disconnect of a client
// that has stopped reading: what is still pending for it is never read (in a
// det script a paused reader is not resumed first; in a conc case it is
// executed at the end of the connection's generation, when the deliveries of
// the others have piled up).
//
// A client that has stopped reading can still send: an operation of a
// connection whose reader is paused is handed to the relay without waiting
// for its reply (the recorded operation carries p=true).  The session takes
// the message, does its work on the registry and then blocks handing over the
// reply, so at most one such operation is in flight per connection: further
// REQ/EVENT/COUNT/CLOSE operations of that connection are skipped until it
// resumes (a CLOSE, which has no reply, is sent at once and its acknowledging
// COUNT becomes the operation in flight).  When the reader resumes, the reply
// is awaited and stamped before anything else happens on that connection; a
// client that goes away without reading leaves the operation unanswered.  In
// a conc script "pause" / "resume" are operations of the client's own script.
//
// Both record a timed history: a global monotone clock is read before an
// operation is handed to the relay, after its reply has been received, and
// after every message a connection receives.  No verdict is taken here, and
// no verdict depends on how long anything took: every wait is bounded, and a
// wait that expires is recorded as a missing reply.

import (
	"bytes"
	"context"
	"encoding/json"
	"fmt"
	"net/http"
	"runtime"
	"sort"
	"strconv"
	"sync"
	"sync/atomic"
	"time"

	"github.com/high-moctane/mocrelay"
	"verif/harness/common"
)

type c07Op struct {
	C   int              `json:"c"`
	O   string           `json:"o"` // req close count event disc pause resume open
	Sub string           `json:"sub,omitempty"`
	Fs  []common.JFilter `json:"fs,omitempty"`
	E   *common.JEvent   `json:"e,omitempty"`
	B   int64            `json:"b"`
	D   *int64           `json:"d"`
	X   bool             `json:"x,omitempty"`  // det: the client disconnects right after sending this operation
	St  bool             `json:"st,omitempty"` // disc: the client has stopped reading and goes away without reading what is pending
	P   bool             `json:"p,omitempty"`  // observation: handed over while the client was not reading, the reply was not awaited (d: read after the client resumed)
}

type c07Msg struct {
	T   string         `json:"t"` // eose ok count event other
	Sub string         `json:"sub,omitempty"`
	ID  string         `json:"id,omitempty"`
	Acc bool           `json:"acc,omitempty"`
	Msg string         `json:"msg,omitempty"`
	N   int64          `json:"n,omitempty"`
	E   *common.JEvent `json:"e,omitempty"`
	S   int64          `json:"s"`
}

type c07Reader struct {
	Mode int `json:"mode"` // 0 fast, 1 jitter, 2 bursty, 3 stalls after K messages
	K    int `json:"k"`    // mode 3: messages read before stalling
	Seed int `json:"seed"` // jitter stream
	Pace int `json:"pace"` // client: 0 none, 1 yield, 2 short sleeps between operations
}

type c07Case struct {
	K       string      `json:"k"` // det conc crash
	Buf     int         `json:"buf"`
	NC      int         `json:"nc"`
	Script  []c07Op     `json:"script,omitempty"`  // det input
	Scripts [][]c07Op   `json:"scripts,omitempty"` // conc input, per connection
	Readers []c07Reader `json:"readers,omitempty"` // conc input
	// Peer: what the handler's context says about the connection.  "" = nothing (the handler is used
	// directly); "same" = an *http.Request with the same RemoteAddr for every connection (a relay on a unix
	// domain socket: every peer is "@"; a reverse proxy: every peer is the proxy); "tcp" = requests with
	// distinct ip:port addresses
	Peer string `json:"peer,omitempty"`
	// observation
	Hops    []c07Op    `json:"hops"`
	Outs    [][]c07Msg `json:"outs"`
	Drained []bool     `json:"drained"`
	RegEnd  int        `json:"reg_end"`
	SubsEnd int        `json:"subs_end"`
	Stuck   bool       `json:"stuck,omitempty"`
	// crash cases
	Race  bool            `json:"race,omitempty"`
	Seed  uint64          `json:"seed,omitempty"`
	Idx   int             `json:"idx,omitempty"`
	N     int             `json:"n,omitempty"`
	Note  string          `json:"msg,omitempty"`
	Input json.RawMessage `json:"input,omitempty"`
}

const c07FlushSub = "~z"
const c07FlushPK = "~zpk"
const c07AckSub = "~c"

var c07SawStuck atomic.Bool

func c07Timeout() time.Duration {
	if c07SawStuck.Load() {
		return 500 * time.Millisecond
	}
	return 10 * time.Second
}

type c07World struct {
	clock    atomic.Int64
	lastRecv atomic.Int64
	fast     atomic.Bool
	router   *mocrelay.RouterHandler
	peer     string
	det      bool // a scripted history: one operation at a time
	ss       []*c07Session
	mu       sync.Mutex
	hops     []c07Op
	stuck    atomic.Bool
}

func (w *c07World) tick() int64 { return w.clock.Add(1) }

func (w *c07World) addHop(h c07Op) {
	w.mu.Lock()
	w.hops = append(w.hops, h)
	w.mu.Unlock()
}

type c07Session struct {
	w        *c07World
	idx      int
	ctx      context.Context
	cancel   context.CancelFunc
	recv     chan mocrelay.ClientMsg
	send     chan mocrelay.ServerMsg
	done     chan error
	replyCh  chan c07Msg
	flushCh  chan struct{}
	pauseCh  chan chan struct{}
	resumeCh chan struct{}
	stopCh   chan struct{}
	rdDone   chan struct{}
	mu       sync.Mutex
	out      []c07Msg
	reader   c07Reader
	sdone    atomic.Bool  // the client's script is over
	started  bool         // ServeNostr is running / has run (driver only)
	paused   bool         // touched by the driver / its own client only
	gone     bool         // disconnected (driver only)
	dead     bool         // a wait expired on this session (driver / its own client only)
	gid      atomic.Int64 // the goroutine that runs the session's ServeNostr
	pend     *c07Op       // handed over while the reader was paused; its reply has not been read (driver / its own client only)
}

func c07ToMsg(m mocrelay.ServerMsg, st int64) c07Msg {
	switch m := m.(type) {
	case *mocrelay.ServerEOSEMsg:
		return c07Msg{T: "eose", Sub: m.SubscriptionID, S: st}
	case *mocrelay.ServerOKMsg:
		return c07Msg{T: "ok", ID: m.EventID, Acc: m.Accepted, Msg: m.MsgPrefix + m.Msg, S: st}
	case *mocrelay.ServerCountMsg:
		return c07Msg{T: "count", Sub: m.SubscriptionID, N: int64(m.Count), S: st}
	case *mocrelay.ServerEventMsg:
		je := common.FromEvent(m.Event)
		return c07Msg{T: "event", Sub: m.SubscriptionID, E: &je, S: st}
	default:
		return c07Msg{T: "other", S: st}
	}
}

func (w *c07World) newSession(idx int, rd c07Reader) *c07Session {
	ctx, cancel := context.WithCancel(context.Background())
	switch w.peer {
	case "same":
		ctx = mocrelay.VerifCtxWithRequest(ctx, &http.Request{RemoteAddr: "@", Header: http.Header{}})
	case "tcp":
		ctx = mocrelay.VerifCtxWithRequest(ctx, &http.Request{RemoteAddr: fmt.Sprintf("10.0.0.%d:%d", 1+idx%3, 40000+idx), Header: http.Header{}})
	}
	s := &c07Session{
		w: w, idx: idx, ctx: ctx, cancel: cancel,
		recv:     make(chan mocrelay.ClientMsg),
		send:     make(chan mocrelay.ServerMsg),
		done:     make(chan error, 1),
		replyCh:  make(chan c07Msg, 256),
		flushCh:  make(chan struct{}, 64),
		pauseCh:  make(chan chan struct{}),
		resumeCh: make(chan struct{}),
		stopCh:   make(chan struct{}),
		rdDone:   make(chan struct{}),
		reader:   rd,
	}
	return s
}

// start connects the session: from here on its ServeNostr runs on the shared router.
func (s *c07Session) start() {
	if s.started {
		return
	}
	s.started = true
	go func() {
		s.gid.Store(c07GoID())
		s.done <- s.w.router.ServeNostr(s.ctx, s.send, s.recv)
	}()
	go s.readLoop()
}

// open connects a late session and records when.
func (s *c07Session) open() {
	if s.started {
		return
	}
	b := s.w.tick()
	s.start()
	s.w.addHop(c07Op{C: s.idx, O: "open", B: b})
}

func (s *c07Session) readLoop() {
	defer close(s.rdDone)
	jr := common.NewRand(uint64(s.reader.Seed)*977 + uint64(s.idx))
	k := 0
	for {
		if s.reader.Mode == 3 && s.sdone.Load() && k >= s.reader.K && !s.w.fast.Load() {
			// a stalled client: reads nothing more until the final phase
			select {
			case <-s.stopCh:
				return
			case <-time.After(200 * time.Microsecond):
				continue
			}
		}
		select {
		case m := <-s.send:
			st := s.w.tick()
			jm := c07ToMsg(m, st)
			s.mu.Lock()
			s.out = append(s.out, jm)
			s.mu.Unlock()
			s.w.lastRecv.Store(time.Now().UnixNano())
			k++
			if jm.T != "event" {
				select {
				case s.replyCh <- jm:
				default:
				}
			} else if jm.Sub == c07FlushSub {
				select {
				case s.flushCh <- struct{}{}:
				default:
				}
			}
			if !s.w.fast.Load() {
				switch s.reader.Mode {
				case 1:
					time.Sleep(time.Duration(jr.Intn(150)) * time.Microsecond)
				case 2:
					if k%5 == 0 {
						time.Sleep(time.Duration(1+jr.Intn(2)) * time.Millisecond)
					}
				}
			}
		case ack := <-s.pauseCh:
			ack <- struct{}{}
			select {
			case <-s.resumeCh:
			case <-s.stopCh:
				return
			}
		case <-s.stopCh:
			return
		}
	}
}

func (s *c07Session) outCopy() []c07Msg {
	s.mu.Lock()
	defer s.mu.Unlock()
	return append([]c07Msg{}, s.out...)
}

// sendMsg hands a client message to the session's recv loop (bounded).
func (s *c07Session) sendMsg(m mocrelay.ClientMsg) bool {
	t := time.NewTimer(c07Timeout())
	defer t.Stop()
	select {
	case s.recv <- m:
		return true
	case <-t.C:
		return false
	}
}

func (s *c07Session) waitReply() bool {
	t := time.NewTimer(c07Timeout())
	defer t.Stop()
	select {
	case <-s.replyCh:
		return true
	case <-t.C:
		return false
	}
}

func (s *c07Session) markStuck() {
	s.dead = true
	s.w.stuck.Store(true)
	c07SawStuck.Store(true)
}

// execCut hands one operation to the relay and disconnects at once, without
// waiting for the reply: the session's context is cancelled while the
// operation is in flight.  Two operations are recorded: the operation itself
// (with an end stamp only if its reply arrived all the same) and the disconnect.
func (s *c07Session) execCut(op c07Op) {
	w := s.w
	h := c07Op{C: s.idx, O: op.O, Sub: op.Sub, Fs: op.Fs, E: op.E, X: true}
	var m mocrelay.ClientMsg
	switch op.O {
	case "req":
		m = &mocrelay.ClientReqMsg{SubscriptionID: op.Sub, ReqFilters: common.ToFilters(op.Fs)}
	case "count":
		m = &mocrelay.ClientCountMsg{SubscriptionID: op.Sub, ReqFilters: common.ToFilters(op.Fs)}
	case "event":
		m = &mocrelay.ClientEventMsg{Event: op.E.ToEvent()}
	case "close":
		m = &mocrelay.ClientCloseMsg{SubscriptionID: op.Sub}
	default:
		return
	}
	// replies of earlier operations have all been consumed
	for len(s.replyCh) > 0 {
		<-s.replyCh
	}
	h.B = w.tick()
	if !s.sendMsg(m) {
		s.markStuck()
		w.addHop(h)
		return
	}
	dh := c07Op{C: s.idx, O: "disc"}
	dh.B = w.tick()
	s.cancel()
	t := time.NewTimer(c07Timeout())
	select {
	case <-s.done:
		close(s.stopCh)
		<-s.rdDone
		d := w.tick()
		dh.D = &d
	case <-t.C:
		s.markStuck()
	}
	t.Stop()
	s.gone = true
	if op.O != "close" {
		select {
		case <-s.replyCh:
			d := w.tick()
			h.D = &d
		default:
		}
	}
	w.addHop(h)
	w.addHop(dh)
}

// c07GoID: the id of the calling goroutine, as goroutine dumps print it.
func c07GoID() int64 {
	var b [64]byte
	n := runtime.Stack(b[:], false)
	f := bytes.Fields(b[:n])
	if len(f) < 2 {
		return 0
	}
	id, _ := strconv.ParseInt(string(f[1]), 10, 64)
	return id
}

var c07SawNoPark atomic.Bool

// awaitBlocked waits (bounded) until the goroutine that runs the session's
// ServeNostr is parked somewhere inside the handling of a message -- i.e. not
// running, and not in ServeNostr's own select, where it waits for the next
// message.  An operation handed over while the client is not reading has no
// reply the driver could wait for; a session that is parked below ServeNostr
// has taken the message, done its work on the registry and cannot hand over
// the reply, so what the next operation of the script finds does not depend on
// how fast that goroutine was scheduled.  This is a scheduling aid of the
// deterministic layer only (like settle): nothing is recorded, no verdict is
// taken, and when the goroutine is not seen parked in time the script goes on.
func (s *c07Session) awaitBlocked() {
	gid := s.gid.Load()
	if gid == 0 {
		return
	}
	wait := 2 * time.Second
	if c07SawNoPark.Load() || c07SawStuck.Load() {
		wait = 20 * time.Millisecond
	}
	key := []byte(fmt.Sprintf("goroutine %d [", gid))
	buf := make([]byte, 1<<18)
	t0 := time.Now()
	for {
		runtime.Gosched()
		n := runtime.Stack(buf, true)
		for n == len(buf) && len(buf) < 1<<24 {
			buf = make([]byte, 4*len(buf))
			n = runtime.Stack(buf, true)
		}
		if c07ParkedBelowServe(buf[:n], key) {
			return
		}
		if time.Since(t0) > wait {
			c07SawNoPark.Store(true)
			return
		}
		time.Sleep(50 * time.Microsecond)
	}
}

// c07ParkedBelowServe reads one goroutine's entry of a dump: "goroutine N [state]:" and the innermost frame.
func c07ParkedBelowServe(dump, key []byte) bool {
	i := 0
	for {
		j := bytes.Index(dump[i:], key)
		if j < 0 {
			return false
		}
		i += j
		if i == 0 || dump[i-1] == '\n' {
			break
		}
		i += len(key)
	}
	rest := dump[i+len(key):]
	j := bytes.IndexByte(rest, ']')
	if j < 0 {
		return false
	}
	state := rest[:j]
	for _, p := range []string{"running", "runnable", "syscall"} {
		if bytes.HasPrefix(state, []byte(p)) {
			return false
		}
	}
	rest = rest[j:]
	j = bytes.IndexByte(rest, '\n')
	if j < 0 {
		return false
	}
	frame := rest[j+1:]
	if k := bytes.IndexByte(frame, '\n'); k >= 0 {
		frame = frame[:k]
	}
	return len(frame) > 0 && !bytes.Contains(frame, []byte(".ServeNostr("))
}

// execPending hands one operation to the relay while the client is not
// reading, and does not wait for the reply: the session's receive loop takes
// the message, does its registry work and then blocks handing over the reply
// (nobody reads).  The operation is recorded when its fate is known: by
// collectPending (the reader has resumed, the reply arrives) or by
// dropPending (the client went away without reading).
func (s *c07Session) execPending(op c07Op) {
	w := s.w
	h := c07Op{C: s.idx, O: op.O, Sub: op.Sub, Fs: op.Fs, E: op.E, P: true}
	var m mocrelay.ClientMsg
	switch op.O {
	case "req":
		m = &mocrelay.ClientReqMsg{SubscriptionID: op.Sub, ReqFilters: common.ToFilters(op.Fs)}
	case "count":
		m = &mocrelay.ClientCountMsg{SubscriptionID: op.Sub, ReqFilters: common.ToFilters(op.Fs)}
	case "event":
		m = &mocrelay.ClientEventMsg{Event: op.E.ToEvent()}
	default:
		return
	}
	// replies of earlier operations have all been consumed, and none arrives while the reader is paused
	for len(s.replyCh) > 0 {
		<-s.replyCh
	}
	h.B = w.tick()
	if !s.sendMsg(m) {
		s.markStuck()
		w.addHop(h)
		return
	}
	s.pend = &h
	if w.det {
		s.awaitBlocked()
	}
}

// collectPending: the reader reads again, so the reply to the operation in
// flight arrives now; it is consumed here and cannot be taken for the reply to
// a later operation.
func (s *c07Session) collectPending() {
	if s.pend == nil {
		return
	}
	h := *s.pend
	s.pend = nil
	if s.waitReply() {
		d := s.w.tick()
		h.D = &d
	} else {
		s.markStuck()
	}
	s.w.addHop(h)
}

// dropPending: the client is gone without having read the reply (or a wait
// has expired and the case is being wound up).
func (s *c07Session) dropPending() {
	if s.pend == nil {
		return
	}
	h := *s.pend
	s.pend = nil
	s.w.addHop(h)
}

// resumeLogged: the client reads again (recorded), and what was in flight is answered.
func (s *c07Session) resumeLogged() {
	if !s.paused {
		return
	}
	s.resume()
	s.w.addHop(c07Op{C: s.idx, O: "resume", B: s.w.tick()})
	s.collectPending()
}

// pauseLogged: the client stops reading (recorded).
func (s *c07Session) pauseLogged() {
	if s.paused {
		return
	}
	if s.pause() {
		s.w.addHop(c07Op{C: s.idx, O: "pause", B: s.w.tick()})
	} else {
		s.markStuck()
	}
}

// execPaused: an operation of a client that is not reading.
func (s *c07Session) execPaused(op c07Op) {
	if s.pend != nil {
		return // the session's receive loop is blocked on the reply in flight: it would not take the message
	}
	switch op.O {
	case "req", "count", "event":
		if op.X {
			s.execCut(op)
			return
		}
		s.execPending(op)
	case "close":
		s.exec(op) // no reply to wait for
		if !s.dead && !op.X {
			s.execPending(c07Op{O: "count", Sub: c07AckSub, Fs: c07Filters1("~")})
		}
	}
}

// exec runs one client-visible operation and records it.
func (s *c07Session) exec(op c07Op) {
	w := s.w
	if op.X {
		s.execCut(op)
		return
	}
	h := c07Op{C: s.idx, O: op.O, Sub: op.Sub, Fs: op.Fs, E: op.E}
	switch op.O {
	case "req", "count", "event":
		var m mocrelay.ClientMsg
		switch op.O {
		case "req":
			m = &mocrelay.ClientReqMsg{SubscriptionID: op.Sub, ReqFilters: common.ToFilters(op.Fs)}
		case "count":
			m = &mocrelay.ClientCountMsg{SubscriptionID: op.Sub, ReqFilters: common.ToFilters(op.Fs)}
		default:
			m = &mocrelay.ClientEventMsg{Event: op.E.ToEvent()}
		}
		h.B = w.tick()
		if !s.sendMsg(m) || !s.waitReply() {
			s.markStuck()
			w.addHop(h)
			return
		}
		d := w.tick()
		h.D = &d
		w.addHop(h)
	case "close":
		h.B = w.tick()
		if !s.sendMsg(&mocrelay.ClientCloseMsg{SubscriptionID: op.Sub}) {
			s.markStuck()
		}
		w.addHop(h)
	case "disc":
		h.St = op.St
		h.B = w.tick()
		s.cancel()
		t := time.NewTimer(c07Timeout())
		select {
		case <-s.done:
			close(s.stopCh)
			<-s.rdDone
			d := w.tick()
			h.D = &d
		case <-t.C:
			s.markStuck()
		}
		t.Stop()
		s.gone = true
		w.addHop(h)
		s.dropPending()
	}
}

func (s *c07Session) pause() bool {
	ack := make(chan struct{}, 1)
	t := time.NewTimer(c07Timeout())
	defer t.Stop()
	select {
	case s.pauseCh <- ack:
		<-ack
		s.paused = true
		return true
	case <-t.C:
		return false
	}
}

func (s *c07Session) resume() {
	if s.paused {
		s.resumeCh <- struct{}{}
		s.paused = false
	}
}

// settle waits until nothing has been received for a short while (bounded).
// It only makes quiescent situations likely; the check does not rely on it.
func (w *c07World) settle(window, max time.Duration) {
	t0 := time.Now()
	for time.Since(t0) < max {
		time.Sleep(60 * time.Microsecond)
		if time.Since(t0) >= window && time.Now().UnixNano()-w.lastRecv.Load() >= int64(window) {
			return
		}
	}
}

func c07Filters1(authors ...string) []common.JFilter {
	a := append([]string{}, authors...)
	return []common.JFilter{{Authors: &a}}
}

// finish: resume every reader, flush every open connection with sentinel
// events (so that everything enqueued before has been received), read the
// registry hooks, tear down.
func (w *c07World) finish(c *c07Case) {
	w.fast.Store(true)
	for _, s := range w.ss {
		// every connection of the case exists by the end
		if !s.started && !w.stuck.Load() {
			s.open()
		}
	}
	for _, s := range w.ss {
		if s.paused && !s.gone {
			s.resumeLogged()
		}
	}
	for _, s := range w.ss {
		// (a wait that expired: what was in flight stays unanswered)
		s.dropPending()
	}
	drained := make([]bool, len(w.ss))
	var open []*c07Session
	if !w.stuck.Load() {
		for _, s := range w.ss {
			if s.started && !s.gone && !s.dead {
				s.exec(c07Op{O: "req", Sub: c07FlushSub, Fs: c07Filters1(c07FlushPK)})
				if !s.dead {
					open = append(open, s)
				}
			}
		}
	}
	flushWait := 3 * time.Second
	if c07SawStuck.Load() {
		flushWait = 500 * time.Millisecond
	}
	flushEnd := time.Now().Add(flushWait)
	for round := 0; len(open) > 0 && !w.stuck.Load() && (round < 40 || time.Now().Before(flushEnd)) && round < 400; round++ {
		w.settle(300*time.Microsecond, 20*time.Millisecond)
		pending := 0
		for _, s := range open {
			if !drained[s.idx] {
				pending++
			}
		}
		if pending == 0 {
			break
		}
		p := open[round%len(open)]
		ev := common.JEvent{ID: fmt.Sprintf("~zz%d", round), PK: c07FlushPK, TS: int64(round), Kind: 1, Tags: [][]string{{"t", "z"}}}
		p.exec(c07Op{O: "event", E: &ev})
		if p.dead {
			break
		}
		// every copy that was enqueued arrives; a copy dropped on a full queue does not,
		// so wait only a little and publish another one
		deadline := time.Now().Add(50 * time.Millisecond)
		for _, s := range open {
			if drained[s.idx] {
				continue
			}
			rem := time.Until(deadline)
			if rem < 0 {
				rem = 0
			}
			t := time.NewTimer(rem)
			select {
			case <-s.flushCh:
				drained[s.idx] = true
			case <-t.C:
			}
			t.Stop()
		}
	}
	// late copies of flush events: give them a moment, they are exempt from "must" anyway
	w.settle(300*time.Microsecond, 5*time.Millisecond)
	// the hooks take the registry's read lock, which a stuck publisher never releases
	hook := make(chan [2]int, 1)
	go func() {
		hook <- [2]int{mocrelay.VerifRouterRegistrySize(w.router), mocrelay.VerifRouterSubscriptionCount(w.router)}
	}()
	ht := time.NewTimer(c07Timeout())
	select {
	case v := <-hook:
		c.RegEnd, c.SubsEnd = v[0], v[1]
	case <-ht.C:
		c.RegEnd, c.SubsEnd = -1, -1
		w.stuck.Store(true)
		c07SawStuck.Store(true)
	}
	ht.Stop()
	for _, s := range w.ss {
		if !s.gone {
			s.cancel()
		}
	}
	if !w.stuck.Load() {
		for _, s := range w.ss {
			if s.started && !s.gone {
				t := time.NewTimer(2 * time.Second)
				select {
				case <-s.done:
					close(s.stopCh)
					<-s.rdDone
				case <-t.C:
				}
				t.Stop()
			}
		}
	}
	c.Drained = drained
	c.Outs = make([][]c07Msg, len(w.ss))
	for i, s := range w.ss {
		c.Outs[i] = s.outCopy()
		if c.Outs[i] == nil {
			c.Outs[i] = []c07Msg{}
		}
	}
	w.mu.Lock()
	c.Hops = append([]c07Op{}, w.hops...)
	w.mu.Unlock()
	sort.SliceStable(c.Hops, func(i, j int) bool { return c.Hops[i].B < c.Hops[j].B })
	c.Stuck = w.stuck.Load()
}

func c07GenPeer(r *common.Rand) string {
	switch x := r.Intn(10); {
	case x < 3:
		return "same"
	case x < 5:
		return "tcp"
	}
	return ""
}

func c07NewWorld(c *c07Case) *c07World {
	w := &c07World{router: mocrelay.NewRouterHandler(c.Buf), peer: c.Peer}
	w.lastRecv.Store(time.Now().UnixNano())
	for i := 0; i < c.NC; i++ {
		rd := c07Reader{}
		if i < len(c.Readers) {
			rd = c.Readers[i]
		}
		w.ss = append(w.ss, w.newSession(i, rd))
	}
	late := map[int]bool{}
	for _, op := range c.Script {
		if op.O == "open" {
			late[op.C] = true
		}
	}
	for i, sc := range c.Scripts {
		for _, op := range sc {
			if op.O == "open" {
				late[i] = true
			}
		}
	}
	for i, s := range w.ss {
		if !late[i] {
			s.start()
		}
	}
	return w
}

// ---- deterministic layer
func c07RunDet(c *c07Case) {
	w := c07NewWorld(c)
	w.det = true
	for _, op := range c.Script {
		if w.stuck.Load() {
			break
		}
		if op.C < 0 || op.C >= len(w.ss) {
			continue
		}
		s := w.ss[op.C]
		if op.O == "open" {
			if !s.started {
				s.open()
				w.settle(250*time.Microsecond, 15*time.Millisecond)
			}
			continue
		}
		if !s.started || s.gone || s.dead {
			continue
		}
		switch op.O {
		case "pause":
			s.pauseLogged()
		case "resume":
			s.resumeLogged()
		case "close":
			if s.paused {
				if s.pend != nil {
					continue
				}
				s.execPaused(op)
				break
			}
			s.exec(op)
			// CLOSE has no reply: a COUNT on the same connection is answered only after it
			if !s.dead && !op.X {
				s.exec(c07Op{O: "count", Sub: c07AckSub, Fs: c07Filters1("~")})
			}
		case "disc":
			if s.paused && !op.St {
				s.resumeLogged()
				w.settle(200*time.Microsecond, 5*time.Millisecond)
			}
			s.exec(op)
		default:
			if s.paused {
				if s.pend != nil {
					continue
				}
				s.execPaused(op)
				break
			}
			s.exec(op)
		}
		w.settle(250*time.Microsecond, 15*time.Millisecond)
	}
	w.finish(c)
}

// ---- concurrent layer
//
// Two generations: the connections without an "open" operation exist from the
// start and run their scripts concurrently; when all of them are through, the
// clients that have stopped reading and leave (final "disc" with st) are
// disconnected, and then the connections with an "open" operation connect to
// the same router and run theirs.
func c07RunConc(c *c07Case) {
	w := c07NewWorld(c)
	for gen := 0; gen < 2; gen++ {
		var wg sync.WaitGroup
		startCh := make(chan struct{})
		var leavers []*c07Session
		for i := range w.ss {
			if i >= len(c.Scripts) {
				break
			}
			s := w.ss[i]
			script := c.Scripts[i]
			if gen == 0 && !s.started {
				continue
			}
			if gen == 1 {
				if s.started || w.stuck.Load() {
					continue
				}
				// what precedes "open" in the script of a connection that does not exist yet is void
				for k, op := range script {
					if op.O == "open" {
						script = script[k+1:]
						break
					}
				}
				s.open()
			}
			if n := len(script); n > 0 && script[n-1].O == "disc" && script[n-1].St {
				script = script[:n-1]
				leavers = append(leavers, s)
			}
			wg.Add(1)
			go func(s *c07Session, script []c07Op) {
				defer wg.Done()
				defer s.sdone.Store(true)
				pr := common.NewRand(uint64(s.reader.Seed)*31 + 7)
				<-startCh
				for _, op := range script {
					if s.gone || s.dead || w.stuck.Load() {
						return
					}
					switch s.reader.Pace {
					case 1:
						time.Sleep(0)
					case 2:
						time.Sleep(time.Duration(pr.Intn(120)) * time.Microsecond)
					}
					switch op.O {
					case "pause":
						s.pauseLogged()
					case "resume":
						s.resumeLogged()
					case "disc":
						if s.paused && !op.St {
							s.resumeLogged()
						}
						s.exec(op)
					case "req", "close", "count", "event":
						if s.paused {
							s.execPaused(op)
						} else {
							s.exec(op)
						}
					}
				}
			}(s, script)
		}
		close(startCh)
		wg.Wait()
		for _, s := range leavers {
			if !s.gone && !s.dead && !w.stuck.Load() {
				s.exec(c07Op{O: "disc", St: true})
			}
		}
	}
	w.finish(c)
}

func c07Run(c *c07Case) {
	c.Hops, c.Outs, c.Drained = nil, nil, nil
	if c.Buf <= 0 {
		c.Buf = 1
	}
	switch c.K {
	case "det":
		c07RunDet(c)
	case "conc":
		c07RunConc(c)
	}
}

// ---- generators
var c07Subs = []string{"a", "b", "c", ""} // the empty id is legal

func c07Universe(nev int) common.Universe {
	u := common.Small
	ids := []string{}
	for i := 0; i < nev && i < 6; i++ {
		ids = append(ids, fmt.Sprintf("id%d", i))
	}
	if len(ids) == 0 {
		ids = []string{"id0"}
	}
	u.IDs = ids
	return u
}

func c07GenFilters(r *common.Rand, u common.Universe) []common.JFilter {
	nf := 1 + r.Intn(2)
	sel := []int{0, 0, 12, 30}[r.Intn(4)]
	fs := []common.JFilter{}
	for i := 0; i < nf; i++ {
		f := u.Filter(r, sel)
		if r.Chance(60) {
			f.Limit = nil
		}
		fs = append(fs, f)
	}
	return fs
}

func c07GenDet(r *common.Rand) c07Case {
	c := c07Case{K: "det", NC: 2 + r.Intn(4), Buf: 1 + r.Intn(3), Peer: c07GenPeer(r)}
	nops := 8 + r.Intn(24)
	u := c07Universe(nops / 3)
	alive := make([]bool, c.NC)
	paused := make([]bool, c.NC)
	pend := make([]bool, c.NC)
	for i := range alive {
		alive[i] = true
	}
	// a client that has stopped reading can still send: one operation per pause (its reply stays unread,
	// and the session takes nothing more from that client, until it reads again)
	quiet := func(x int) bool {
		if !paused[x] {
			return false
		}
		if pend[x] || !r.Chance(30) {
			return true
		}
		pend[x] = true
		return false
	}
	nev := 0
	for len(c.Script) < nops {
		x := r.Intn(c.NC)
		if !alive[x] {
			continue
		}
		k := r.Intn(100)
		if len(c.Script) < c.NC && r.Chance(80) {
			k = 0 // open with subscriptions
		}
		switch {
		case k < 30:
			if quiet(x) {
				continue
			}
			c.Script = append(c.Script, c07Op{C: x, O: "req", Sub: common.Pick(r, c07Subs), Fs: c07GenFilters(r, u)})
		case k < 68:
			if quiet(x) {
				continue
			}
			e := u.Event(r, nev)
			nev++
			c.Script = append(c.Script, c07Op{C: x, O: "event", E: &e})
		case k < 78:
			if quiet(x) {
				continue
			}
			c.Script = append(c.Script, c07Op{C: x, O: "close", Sub: common.Pick(r, c07Subs)})
		case k < 80:
			if quiet(x) {
				continue
			}
			c.Script = append(c.Script, c07Op{C: x, O: "count", Sub: common.Pick(r, c07Subs), Fs: c07GenFilters(r, u)})
		case k < 85:
			// a client that has stopped reading mostly goes away without reading what is pending
			c.Script = append(c.Script, c07Op{C: x, O: "disc", St: paused[x] && r.Chance(60)})
			alive[x] = false
		case k < 93:
			if !paused[x] {
				c.Script = append(c.Script, c07Op{C: x, O: "pause"})
				paused[x] = true
			}
		default:
			if paused[x] {
				c.Script = append(c.Script, c07Op{C: x, O: "resume"})
				paused[x] = false
				pend[x] = false
			}
		}
		// now and then the client disconnects right after sending, without waiting for the reply
		if last := len(c.Script) - 1; last >= 0 && c.Script[last].C == x && alive[x] && !paused[x] && r.Chance(7) {
			switch c.Script[last].O {
			case "req", "event", "count", "close":
				c.Script[last].X = true
				alive[x] = false
			}
		}
		n := 0
		for _, a := range alive {
			if a {
				n++
			}
		}
		if n == 0 {
			break
		}
	}
	return c
}

func c07GenConc(r *common.Rand) c07Case {
	c := c07Case{K: "conc", NC: 2 + r.Intn(7), Buf: 1 + r.Intn(4), Peer: c07GenPeer(r)}
	u := c07Universe(6)
	nev := 0
	for x := 0; x < c.NC; x++ {
		rd := c07Reader{Mode: []int{0, 0, 1, 1, 2, 3}[r.Intn(6)], K: r.Intn(4), Seed: r.Intn(1 << 20), Pace: r.Intn(3)}
		var sc []c07Op
		if rd.Mode == 3 {
			// a subscriber that stops reading: a few REQs (their EOSEs are read), then silence
			n := 1 + r.Intn(2)
			rd.K = n + r.Intn(3)
			for i := 0; i < n; i++ {
				sc = append(sc, c07Op{C: x, O: "req", Sub: c07Subs[i], Fs: c07GenFilters(r, u)})
			}
			if r.Chance(50) {
				// ... and one more message sent when it no longer reads
				sc = append(sc, c07Op{C: x, O: "pause"}, c07GenUnread(r, u, x, &nev))
			}
		} else {
			n := 4 + r.Intn(14)
			for i := 0; i < n; i++ {
				k := r.Intn(100)
				if i == 0 && r.Chance(70) {
					k = 0
				}
				switch {
				case k < 32:
					sc = append(sc, c07Op{C: x, O: "req", Sub: common.Pick(r, c07Subs), Fs: c07GenFilters(r, u)})
				case k < 80:
					e := u.Event(r, -1)
					e.ID = fmt.Sprintf("id%d_%d", x, nev)
					if r.Chance(30) {
						e.ID = fmt.Sprintf("id%d", r.Intn(6)) + fmt.Sprintf("_%d_%d", x, nev)
					}
					nev++
					sc = append(sc, c07Op{C: x, O: "event", E: &e})
				case k < 92:
					sc = append(sc, c07Op{C: x, O: "close", Sub: common.Pick(r, c07Subs)})
				case k < 95:
					sc = append(sc, c07Op{C: x, O: "count", Sub: common.Pick(r, c07Subs), Fs: c07GenFilters(r, u)})
				default:
					sc = append(sc, c07Op{C: x, O: "disc"})
					i = n
				}
			}
			if last := sc[len(sc)-1]; last.O != "disc" && r.Chance(20) {
				// the client stops reading for a while and sends one more message in the meantime
				sc = append(sc, c07Op{C: x, O: "pause"}, c07GenUnread(r, u, x, &nev))
				if r.Chance(50) {
					sc = append(sc, c07Op{C: x, O: "resume"})
					for j := r.Intn(3); j > 0; j-- {
						e := u.Event(r, -1)
						e.ID = fmt.Sprintf("id%d_%d", x, nev)
						nev++
						sc = append(sc, c07Op{C: x, O: "event", E: &e})
					}
				}
			}
		}
		c.Scripts = append(c.Scripts, sc)
		c.Readers = append(c.Readers, rd)
	}
	return c
}

// c07GenUnread: the one message a conc client sends while it is not reading:
// mostly a REQ (new or replacing), else an EVENT or a COUNT
func c07GenUnread(r *common.Rand, u common.Universe, x int, nev *int) c07Op {
	switch k := r.Intn(10); {
	case k < 7:
		return c07Op{C: x, O: "req", Sub: common.Pick(r, c07Subs), Fs: c07GenFiltersWide(r, u)}
	case k < 9:
		e := u.Event(r, -1)
		e.ID = fmt.Sprintf("id%d_%d", x, *nev)
		*nev++
		return c07Op{C: x, O: "event", E: &e}
	}
	return c07Op{C: x, O: "count", Sub: common.Pick(r, c07Subs), Fs: c07GenFilters(r, u)}
}

// c07GenFiltersWide: as c07GenFilters, but more often a filter that matches everything
func c07GenFiltersWide(r *common.Rand, u common.Universe) []common.JFilter {
	if r.Chance(55) {
		return []common.JFilter{{}}
	}
	return c07GenFilters(r, u)
}

// c07GenChurn: connection churn on one router (a det script).  A first
// generation of 2..5 connections subscribes; some of them stop reading while
// the others keep publishing, and leave -- mostly without ever reading what had
// piled up for them; 1..3 further connections connect only later ("open"),
// typically after somebody has left, subscribe (the same few subscription
// ids) and take part.  A weighted random walk, not a fixed scenario: every
// operation is drawn, only the weights favour stall -> publish -> leave -> join.
func c07GenChurn(r *common.Rand) c07Case {
	n1 := 2 + r.Intn(4)
	nLate := 1 + r.Intn(3)
	c := c07Case{K: "det", NC: n1 + nLate, Buf: 1 + r.Intn(3), Peer: c07GenPeer(r)}
	nops := 14 + r.Intn(24)
	u := c07Universe(nops / 3)
	born := make([]bool, c.NC)
	alive := make([]bool, c.NC)
	paused := make([]bool, c.NC)
	pend := make([]bool, c.NC)
	nsub := make([]int, c.NC)
	for i := 0; i < n1; i++ {
		born[i], alive[i] = true, true
	}
	left := 0
	nev := 0
	pick := func(ok func(x int) bool) int {
		var xs []int
		for x := 0; x < c.NC; x++ {
			if ok(x) {
				xs = append(xs, x)
			}
		}
		if len(xs) == 0 {
			return -1
		}
		return xs[r.Intn(len(xs))]
	}
	active := func(x int) bool { return alive[x] && !paused[x] }
	for tries := 0; len(c.Script) < nops && tries < 40*nops; tries++ {
		k := r.Intn(100)
		if len(c.Script) < n1 && r.Chance(80) {
			k = 0
		}
		// a subscriber that has stopped reading can still send one message (REQ or EVENT here)
		unread := func(x int) bool { return alive[x] && paused[x] && !pend[x] }
		switch {
		case k < 20:
			x := -1
			if r.Chance(30) {
				if x = pick(unread); x >= 0 {
					pend[x] = true
				}
			}
			if x < 0 {
				x = pick(func(x int) bool { return active(x) && (len(c.Script) >= n1 || nsub[x] == 0) })
			}
			if x < 0 {
				x = pick(active)
			}
			if x < 0 {
				continue
			}
			c.Script = append(c.Script, c07Op{C: x, O: "req", Sub: common.Pick(r, c07Subs), Fs: c07GenFiltersWide(r, u)})
			nsub[x]++
		case k < 50:
			x := -1
			if r.Chance(8) {
				if x = pick(unread); x >= 0 {
					pend[x] = true
				}
			}
			if x < 0 {
				x = pick(active)
			}
			if x < 0 {
				continue
			}
			e := u.Event(r, nev)
			nev++
			c.Script = append(c.Script, c07Op{C: x, O: "event", E: &e})
		case k < 64:
			// a subscriber stops reading; somebody who can still publish remains
			n := 0
			for x := range alive {
				if active(x) {
					n++
				}
			}
			x := pick(func(x int) bool { return active(x) && nsub[x] > 0 })
			if x < 0 || n < 2 {
				continue
			}
			c.Script = append(c.Script, c07Op{C: x, O: "pause"})
			paused[x] = true
		case k < 78:
			x := pick(func(x int) bool { return alive[x] && paused[x] })
			if x < 0 || r.Chance(20) {
				x = pick(func(x int) bool { return alive[x] })
			}
			if x < 0 {
				continue
			}
			c.Script = append(c.Script, c07Op{C: x, O: "disc", St: paused[x] && r.Chance(80)})
			alive[x] = false
			left++
		case k < 90:
			x := pick(func(x int) bool { return !born[x] })
			if x < 0 || (left == 0 && !r.Chance(25)) {
				continue
			}
			c.Script = append(c.Script, c07Op{C: x, O: "open"})
			born[x], alive[x] = true, true
			if r.Chance(75) {
				c.Script = append(c.Script, c07Op{C: x, O: "req", Sub: common.Pick(r, c07Subs), Fs: c07GenFiltersWide(r, u)})
				nsub[x]++
			}
		case k < 94:
			x := pick(active)
			if x < 0 {
				continue
			}
			c.Script = append(c.Script, c07Op{C: x, O: "close", Sub: common.Pick(r, c07Subs)})
		case k < 96:
			x := pick(active)
			if x < 0 {
				continue
			}
			c.Script = append(c.Script, c07Op{C: x, O: "count", Sub: common.Pick(r, c07Subs), Fs: c07GenFilters(r, u)})
		default:
			x := pick(func(x int) bool { return alive[x] && paused[x] })
			if x < 0 {
				continue
			}
			c.Script = append(c.Script, c07Op{C: x, O: "resume"})
			paused[x] = false
			pend[x] = false
		}
	}
	// whoever has not connected yet does so at the end, and subscribes
	for x := 0; x < c.NC; x++ {
		if !born[x] {
			c.Script = append(c.Script, c07Op{C: x, O: "open"},
				c07Op{C: x, O: "req", Sub: common.Pick(r, c07Subs), Fs: c07GenFiltersWide(r, u)})
		}
	}
	return c
}

// c07AddGeneration: a conc case gets a second generation -- some stalled
// subscribers of the first leave at its end with their deliveries pending, and
// 1..3 new connections connect afterwards and run scripts of their own.
func c07AddGeneration(r *common.Rand, c *c07Case) {
	for x := range c.Scripts {
		if c.Readers[x].Mode == 3 && r.Chance(75) {
			c.Scripts[x] = append(c.Scripts[x], c07Op{C: x, O: "disc", St: true})
		}
	}
	u := c07Universe(6)
	n2 := 1 + r.Intn(3)
	for j := 0; j < n2; j++ {
		x := c.NC
		c.NC++
		rd := c07Reader{Mode: []int{0, 0, 1, 2}[r.Intn(4)], Seed: r.Intn(1 << 20), Pace: r.Intn(3)}
		sc := []c07Op{{C: x, O: "open"}}
		n := 2 + r.Intn(7)
		for i := 0; i < n; i++ {
			k := r.Intn(100)
			if i == 0 && r.Chance(70) {
				k = 0
			}
			switch {
			case k < 40:
				sc = append(sc, c07Op{C: x, O: "req", Sub: common.Pick(r, c07Subs), Fs: c07GenFiltersWide(r, u)})
			case k < 85:
				e := u.Event(r, -1)
				e.ID = fmt.Sprintf("id%d_g%d", x, i)
				sc = append(sc, c07Op{C: x, O: "event", E: &e})
			case k < 95:
				sc = append(sc, c07Op{C: x, O: "close", Sub: common.Pick(r, c07Subs)})
			default:
				sc = append(sc, c07Op{C: x, O: "count", Sub: common.Pick(r, c07Subs), Fs: c07GenFilters(r, u)})
			}
		}
		c.Scripts = append(c.Scripts, sc)
		c.Readers = append(c.Readers, rd)
	}
}

func c07Gen(root *common.Rand, i int) c07Case {
	r := root.Fork(uint64(i))
	switch {
	case i%10 == 7 || i%20 == 2:
		return c07GenChurn(r)
	case i%5 < 3:
		return c07GenDet(r)
	}
	c := c07GenConc(r)
	if r.Chance(30) {
		c07AddGeneration(r, &c)
	}
	return c
}

// c07Pool runs cases i = start..n-1 on a few workers (each case has its own
// router and clock) and emits them in index order.
func c07Pool(n, start int, gen func(i int) c07Case, out *lineOut) {
	const workers = 4
	type res struct {
		i int
		c c07Case
	}
	jobs := make(chan int)
	results := make(chan res, workers)
	for w := 0; w < workers; w++ {
		go func() {
			for i := range jobs {
				c := gen(i)
				c07Run(&c)
				results <- res{i, c}
			}
		}()
	}
	go func() {
		for i := start; i < n; i++ {
			jobs <- i
		}
		close(jobs)
	}()
	pending := map[int]c07Case{}
	next := start
	for got := 0; got < n-start; got++ {
		r := <-results
		pending[r.i] = r.c
		for {
			c, ok := pending[next]
			if !ok {
				break
			}
			out.Emit(c)
			delete(pending, next)
			next++
		}
	}
}

func init() {
	subcmds["c07"] = func(seed uint64, n int, start int, out *lineOut, replay string) {
		if replay != "" {
			lines := common.ReadLines(replay)
			c07Pool(len(lines), start, func(i int) c07Case {
				var c c07Case
				if err := json.Unmarshal(lines[i], &c); err != nil {
					common.Fatalf("bad replay case: %v", err)
				}
				if c.K == "crash" {
					if len(c.Input) > 0 {
						var in c07Case
						if err := json.Unmarshal(c.Input, &in); err != nil {
							common.Fatalf("bad crash input: %v", err)
						}
						c = in
					} else {
						c = c07Gen(common.NewRand(c.Seed), c.Idx)
					}
				}
				return c
			}, out)
			return
		}
		root := common.NewRand(seed)
		c07Pool(n, start, func(i int) c07Case { return c07Gen(root, i) }, out)
	}
}
