// router harness (C07): drives one real RouterHandler shared by several
// sessions.  Built with -race.  The process re-executes itself as a child so
// that a data-race report (GORACE=halt_on_error=1) or a panic in a goroutine
// of the implementation ends the child only; the parent then records a
// "crash" case, which the oracle rejects, and continues with the next case.
//
// usage: router <sub-command> -seed N -n N -out FILE [-replay FILE]
package main

import (
	"bytes"
	"encoding/json"
	"flag"
	"fmt"
	"os"
	"os/exec"
	"strings"

	"verif/harness/common"
)

type subcmd func(seed uint64, n int, start int, out *lineOut, replay string)

var subcmds = map[string]subcmd{}

// lineOut writes one JSON object per line, unbuffered, so that everything
// emitted before a crash is on disk.
type lineOut struct {
	f *os.File
	N int
}

func (o *lineOut) Emit(v any) {
	b, err := json.Marshal(v)
	if err != nil {
		panic(err)
	}
	b = append(b, '\n')
	if _, err := o.f.Write(b); err != nil {
		panic(err)
	}
	o.N++
}

func countLines(path string) int {
	b, err := os.ReadFile(path)
	if err != nil {
		return 0
	}
	return bytes.Count(b, []byte{'\n'})
}

func main() {
	if len(os.Args) < 2 {
		common.Fatalf("usage: router <sub-command> flags")
	}
	name := os.Args[1]
	fs := flag.NewFlagSet(name, flag.ExitOnError)
	seed := fs.Uint64("seed", 1, "PRNG seed")
	n := fs.Int("n", 100, "number of cases")
	outp := fs.String("out", "", "output JSONL")
	replay := fs.String("replay", "", "JSONL of inputs to re-run instead of generating")
	start := fs.Int("start", 0, "first case index (child)")
	fs.Parse(os.Args[2:])
	f, ok := subcmds[name]
	if !ok {
		common.Fatalf("unknown sub-command %s", name)
	}
	if *outp == "" {
		common.Fatalf("-out required")
	}
	if os.Getenv("VERIF_ROUTER_CHILD") == "1" {
		fh, err := os.OpenFile(*outp, os.O_WRONLY|os.O_APPEND|os.O_CREATE, 0o644)
		if err != nil {
			common.Fatalf("%v", err)
		}
		out := &lineOut{f: fh}
		f(*seed, *n, *start, out, *replay)
		fh.Close()
		return
	}
	// parent
	if err := os.WriteFile(*outp, nil, 0o644); err != nil {
		common.Fatalf("%v", err)
	}
	total := *n
	if *replay != "" {
		total = len(common.ReadLines(*replay))
	}
	crashes := 0
	for {
		done := countLines(*outp)
		if done >= total {
			break
		}
		args := []string{name, "-seed", fmt.Sprint(*seed), "-n", fmt.Sprint(*n), "-out", *outp, "-start", fmt.Sprint(done)}
		if *replay != "" {
			args = append(args, "-replay", *replay)
		}
		cmd := exec.Command(os.Args[0], args...)
		cmd.Env = append(os.Environ(), "VERIF_ROUTER_CHILD=1", "GORACE=halt_on_error=1 exitcode=66")
		var stderr bytes.Buffer
		cmd.Stderr = &stderr
		err := cmd.Run()
		if err == nil {
			if countLines(*outp) < total {
				common.Fatalf("child ended early without error")
			}
			break
		}
		crashes++
		txt := stderr.String()
		race := strings.Contains(txt, "WARNING: DATA RACE")
		if len(txt) > 6000 {
			txt = txt[:6000]
		}
		fmt.Fprintf(os.Stderr, "router harness: child died (%v), race=%v\n%s\n", err, race, txt)
		idx := countLines(*outp)
		fh, err2 := os.OpenFile(*outp, os.O_WRONLY|os.O_APPEND, 0o644)
		if err2 != nil {
			common.Fatalf("%v", err2)
		}
		crash := map[string]any{"k": "crash", "race": race, "seed": *seed, "idx": idx, "n": *n, "msg": txt}
		if *replay != "" {
			// keep the input of the case that died, so that a replay re-runs it
			lines := common.ReadLines(*replay)
			if idx < len(lines) {
				var in map[string]any
				if json.Unmarshal(lines[idx], &in) == nil {
					if in["k"] == "crash" {
						crash["seed"], crash["idx"], crash["n"] = in["seed"], in["idx"], in["n"]
					} else {
						crash["input"] = in
					}
				}
			}
		}
		b, _ := json.Marshal(crash)
		fh.Write(append(b, '\n'))
		fh.Close()
		if crashes >= 8 {
			// do not loop forever on an implementation that dies on every case
			break
		}
	}
	fmt.Fprintf(os.Stderr, "%s: %d cases, %d crashes\n", name, countLines(*outp), crashes)
}
