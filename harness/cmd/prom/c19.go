package main

// C19: sessions through the REAL NewPrometheusMiddleware(reg) (fresh registry
// per case) wrapped around a scripted inner handler.  The harness drives the
// sessions one group of operations at a time; an operation is complete when
// its effect has been seen on the far side of the middleware (a client message
// by the inner handler, a server message on the outer send channel, a start by
// the inner handler being entered, an end by ServeNostr returning), which is
// after the middleware's counter updates for it.  No sentinel messages are
// used, so nothing but the scripted messages is counted.  After every group
// reg.Gather() is read.

import (
	"context"
	"encoding/json"
	"errors"
	"fmt"
	"sort"
	"strings"
	"sync"
	"sync/atomic"
	"time"

	"github.com/coder/websocket"
	"github.com/high-moctane/mocrelay"
	mocprom "github.com/high-moctane/mocrelay/middleware/prometheus"
	"github.com/prometheus/client_golang/prometheus"
	"verif/harness/common"
)

type c19Msg struct {
	T    string `json:"t"` // client: EVENT REQ CLOSE AUTH COUNT OTHER; server: EOSE EVENT NOTICE OK AUTH COUNT CLOSED OTHER
	Sub  string `json:"sub,omitempty"`
	Kind int64  `json:"kind,omitempty"`
	UID  int    `json:"uid"`
}

type c19Step struct {
	Op  string  `json:"op"` // start | end | c | s
	S   int     `json:"s"`
	M   *c19Msg `json:"m,omitempty"`
	How string  `json:"how,omitempty"` // end: quit (inner handler returns) | cancel (context) | close (recv channel closed / connection dropped)
	Hdr string  `json:"hdr,omitempty"` // start, transport ws: the X-Request-Id header of the upgrade request ("" = none)
}

type c19KV struct {
	L string `json:"l"`
	V int64  `json:"v"`
}

type c19Snap struct {
	Conn int64   `json:"conn"`
	Req  int64   `json:"req"`
	Recv []c19KV `json:"recv"`
	Kind []c19KV `json:"kind"`
	Send []c19KV `json:"send"`
}

type c19View struct {
	S  int      `json:"s"`
	Ms []c19Msg `json:"ms"`
}

type c19Case struct {
	Via    string      `json:"via,omitempty"` // transport: "" (Handler API) | "ws" (Relay.ServeHTTP over a loopback WebSocket)
	Groups [][]c19Step `json:"groups"`
	Obs    []c19Snap   `json:"obs"`
	Inner  []c19View   `json:"inner"`
	Outer  []c19View   `json:"outer"`
	Clean  bool        `json:"clean"`
	Notes  []string    `json:"notes,omitempty"`
}

// message types no switch of the middleware knows (not zero-sized: distinct values must have
// distinct addresses, the harness identifies a message by its pointer)
type otherClientMsg struct{ uid int }

func (*otherClientMsg) ClientMsgLabel() string { return "OTHER" }

type otherServerMsg struct{ uid int }

func (*otherServerMsg) ServerMsgLabel() string { return "OTHER" }

func c19Client(m *c19Msg) mocrelay.ClientMsg {
	switch m.T {
	case "EVENT":
		return &mocrelay.ClientEventMsg{Event: &mocrelay.Event{ID: fmt.Sprintf("e%d", m.UID), Kind: m.Kind}}
	case "REQ":
		return &mocrelay.ClientReqMsg{SubscriptionID: m.Sub, ReqFilters: []*mocrelay.ReqFilter{{}}}
	case "CLOSE":
		return &mocrelay.ClientCloseMsg{SubscriptionID: m.Sub}
	case "AUTH":
		return &mocrelay.ClientAuthMsg{Event: &mocrelay.Event{ID: fmt.Sprintf("a%d", m.UID), Kind: 22242}}
	case "COUNT":
		return &mocrelay.ClientCountMsg{SubscriptionID: m.Sub, ReqFilters: []*mocrelay.ReqFilter{{}}}
	}
	return &otherClientMsg{m.UID}
}

func c19Server(m *c19Msg) mocrelay.ServerMsg {
	switch m.T {
	case "EOSE":
		return mocrelay.NewServerEOSEMsg(m.Sub)
	case "EVENT":
		return mocrelay.NewServerEventMsg(m.Sub, &mocrelay.Event{ID: fmt.Sprintf("se%d", m.UID), Kind: 1})
	case "NOTICE":
		return mocrelay.NewServerNoticeMsg(fmt.Sprintf("n%d", m.UID))
	case "OK":
		return mocrelay.NewServerOKMsg(fmt.Sprintf("e%d", m.UID), true, "", "")
	case "AUTH":
		return &mocrelay.ServerAuthMsg{Challenge: fmt.Sprintf("c%d", m.UID)}
	case "COUNT":
		return mocrelay.NewServerCountMsg(m.Sub, uint64(m.UID), nil)
	case "CLOSED":
		return mocrelay.NewServerClosedMsg(m.Sub, "", "bye")
	}
	return &otherServerMsg{m.UID}
}

// what arrived, read off the value itself (not off the script)
func c19SeenClient(m mocrelay.ClientMsg, uid int) c19Msg {
	switch m := m.(type) {
	case *mocrelay.ClientEventMsg:
		k := int64(0)
		if m != nil && m.Event != nil {
			k = m.Event.Kind
		}
		return c19Msg{T: "EVENT", Kind: k, UID: uid}
	case *mocrelay.ClientReqMsg:
		return c19Msg{T: "REQ", Sub: m.SubscriptionID, UID: uid}
	case *mocrelay.ClientCloseMsg:
		return c19Msg{T: "CLOSE", Sub: m.SubscriptionID, UID: uid}
	case *mocrelay.ClientAuthMsg:
		return c19Msg{T: "AUTH", UID: uid}
	case *mocrelay.ClientCountMsg:
		return c19Msg{T: "COUNT", Sub: m.SubscriptionID, UID: uid}
	}
	return c19Msg{T: "OTHER", UID: uid}
}

func c19SeenServer(m mocrelay.ServerMsg, uid int) c19Msg {
	switch m := m.(type) {
	case *mocrelay.ServerEOSEMsg:
		return c19Msg{T: "EOSE", Sub: m.SubscriptionID, UID: uid}
	case *mocrelay.ServerEventMsg:
		return c19Msg{T: "EVENT", Sub: m.SubscriptionID, UID: uid}
	case *mocrelay.ServerNoticeMsg:
		return c19Msg{T: "NOTICE", UID: uid}
	case *mocrelay.ServerOKMsg:
		return c19Msg{T: "OK", UID: uid}
	case *mocrelay.ServerAuthMsg:
		return c19Msg{T: "AUTH", UID: uid}
	case *mocrelay.ServerCountMsg:
		return c19Msg{T: "COUNT", Sub: m.SubscriptionID, UID: uid}
	case *mocrelay.ServerClosedMsg:
		return c19Msg{T: "CLOSED", Sub: m.SubscriptionID, UID: uid}
	}
	return c19Msg{T: "OTHER", UID: uid}
}

type c19Sess struct {
	ctx      context.Context
	cancel   context.CancelFunc
	recv     chan mocrelay.ClientMsg // harness -> middleware
	send     chan mocrelay.ServerMsg // middleware -> harness
	cmd      chan mocrelay.ServerMsg // harness -> inner handler: emit this
	quit     chan struct{}           // harness -> inner handler: return
	started  chan struct{}
	innerGot chan mocrelay.ClientMsg // inner handler -> harness
	done     chan error
	conn     *websocket.Conn // transport ws: the client's end
	wsIn     chan c19Msg     // transport ws: what the client read, in order
}

type c19SessKey struct{}

// a wait that exceeds this is recorded as a failure of the case; a case that timed out is run
// once more with a much longer limit, so that a loaded machine does not produce a false alarm
const c19Timeout = 2 * time.Second
const c19TimeoutRetry = 6 * time.Second

var errC19Timeout = errors.New("timeout")

// the scripted inner handler
func c19Inner(ctx context.Context, send chan<- mocrelay.ServerMsg, recv <-chan mocrelay.ClientMsg) error {
	s, _ := ctx.Value(c19SessKey{}).(*c19Sess)
	if s == nil {
		return errors.New("inner handler: session not found in context")
	}
	close(s.started)
	for {
		select {
		case <-ctx.Done():
			return ctx.Err()
		case <-s.quit:
			return nil
		case m, ok := <-recv:
			if !ok {
				return errors.New("recv closed")
			}
			s.innerGot <- m
		case m := <-s.cmd:
			select {
			case send <- m:
			case <-ctx.Done():
				return ctx.Err()
			}
		}
	}
}

func c19Gather(reg *prometheus.Registry) (c19Snap, error) {
	sn := c19Snap{Recv: []c19KV{}, Kind: []c19KV{}, Send: []c19KV{}}
	mfs, err := reg.Gather()
	if err != nil {
		return sn, err
	}
	toInt := func(v float64) (int64, error) {
		i := int64(v)
		if float64(i) != v {
			return i, fmt.Errorf("non-integral metric value %v", v)
		}
		return i, nil
	}
	for _, mf := range mfs {
		for _, m := range mf.GetMetric() {
			var v int64
			var e error
			label := ""
			if len(m.GetLabel()) > 0 {
				label = m.GetLabel()[0].GetValue()
			}
			switch mf.GetName() {
			case "mocrelay_connection_count":
				v, e = toInt(m.GetGauge().GetValue())
				sn.Conn = v
			case "mocrelay_req_count":
				v, e = toInt(m.GetGauge().GetValue())
				sn.Req = v
			case "mocrelay_recv_msg_total":
				v, e = toInt(m.GetCounter().GetValue())
				sn.Recv = append(sn.Recv, c19KV{label, v})
			case "mocrelay_recv_event_total":
				v, e = toInt(m.GetCounter().GetValue())
				sn.Kind = append(sn.Kind, c19KV{label, v})
			case "mocrelay_send_msg_total":
				v, e = toInt(m.GetCounter().GetValue())
				sn.Send = append(sn.Send, c19KV{label, v})
			}
			if e != nil && err == nil {
				err = e
			}
		}
	}
	for _, l := range [][]c19KV{sn.Recv, sn.Kind, sn.Send} {
		sort.Slice(l, func(i, j int) bool { return l[i].L < l[j].L })
	}
	return sn, err
}

// c19Normalize keeps only steps that are possible (a session's steps lie
// between its start and its end; the sessions of a group are pairwise
// distinct), numbers the messages, and drops empty groups.  Replayed and
// shrunk inputs go through it, so every input is a well-formed history.
func c19Normalize(groups [][]c19Step, via string) [][]c19Step {
	ws := via == c19WS
	live := map[int]bool{}
	uid := 0
	var out [][]c19Step
	for _, g := range groups {
		var ng []c19Step
		used := map[int]bool{}
		for _, st := range g {
			if used[st.S] || st.S < 0 || st.S > 1000 {
				continue
			}
			switch st.Op {
			case "start":
				if live[st.S] {
					continue
				}
				live[st.S] = true
				st.M, st.How = nil, ""
				if !ws {
					st.Hdr = ""
				}
			case "dead":
				// a session whose context is already cancelled when ServeNostr is called
				if live[st.S] || ws {
					continue
				}
				st.M, st.How, st.Hdr = nil, "", ""
			case "end":
				if !live[st.S] {
					continue
				}
				delete(live, st.S)
				st.M, st.Hdr = nil, ""
				if st.How != "cancel" && st.How != "close" {
					st.How = "quit"
				}
			case "c", "s":
				if !live[st.S] || st.M == nil {
					continue
				}
				if ws && ((st.Op == "c" && !c19WSAllowedClient(st.M.T)) || (st.Op == "s" && !c19WSAllowedServer(st.M.T))) {
					continue
				}
				m := *st.M
				m.UID = uid
				uid++
				st.M, st.How, st.Hdr = &m, "", ""
			default:
				continue
			}
			used[st.S] = true
			ng = append(ng, st)
		}
		if len(ng) > 0 {
			out = append(out, ng)
		}
	}
	if out == nil {
		out = [][]c19Step{}
	}
	return out
}

// c19Confirmed counts cases that timed out even with the long limit.  Once a few are
// confirmed (a message really is lost), later cases use a short limit and no retry, so that
// a run against a broken middleware still ends in reasonable time.
var c19Confirmed atomic.Int32

func c19TimedOut(c *c19Case) bool {
	for _, n := range c.Notes {
		if strings.Contains(n, errC19Timeout.Error()) {
			return true
		}
	}
	return false
}

func c19Run(c *c19Case) {
	if c19Confirmed.Load() >= 3 {
		c19RunT(c, 150*time.Millisecond)
		return
	}
	c19RunT(c, c19Timeout)
	if !c.Clean && c19TimedOut(c) {
		c19RunT(c, c19TimeoutRetry)
		if !c.Clean && c19TimedOut(c) {
			c19Confirmed.Add(1)
		}
	}
}

func c19RunT(c *c19Case, limit time.Duration) {
	if c.Via != c19WS {
		c.Via = ""
	}
	c.Groups = c19Normalize(c.Groups, c.Via)
	c.Obs, c.Inner, c.Outer, c.Notes = []c19Snap{}, []c19View{}, []c19View{}, nil
	c.Clean = true

	reg := prometheus.NewRegistry()
	h := mocrelay.Middleware(mocprom.NewPrometheusMiddleware(reg))(mocrelay.HandlerFunc(c19Inner))
	var host *c19WSHost
	if c.Via == c19WS {
		host = c19NewWSHost(h)
		defer host.close()
	}

	sess := map[int]*c19Sess{}
	var mu sync.Mutex
	uidOf := map[any]int{} // message pointer -> uid (identity stays inside the harness)
	inner := map[int][]c19Msg{}
	outer := map[int][]c19Msg{}
	seen := map[int]bool{}
	note := func(f string, a ...any) {
		mu.Lock()
		c.Notes = append(c.Notes, fmt.Sprintf(f, a...))
		c.Clean = false
		mu.Unlock()
	}
	lookup := func(m any) int {
		mu.Lock()
		defer mu.Unlock()
		if u, ok := uidOf[m]; ok {
			return u
		}
		return -1
	}

	do := func(st c19Step) error {
		tmo := time.After(limit)
		switch st.Op {
		case "start":
			if host != nil {
				s := &c19Sess{
					cancel:   func() {},
					cmd:      make(chan mocrelay.ServerMsg),
					quit:     make(chan struct{}),
					started:  make(chan struct{}),
					innerGot: make(chan mocrelay.ClientMsg, 64),
					done:     make(chan error, 1),
				}
				mu.Lock()
				sess[st.S] = s
				seen[st.S] = true
				mu.Unlock()
				if err := host.start(st.S, s, st.Hdr, limit); err != nil {
					return err
				}
				select {
				case <-s.started:
				case e := <-s.done:
					s.done <- e
					return fmt.Errorf("session %d ended before its handler started: %v", st.S, e)
				case <-tmo:
					return errC19Timeout
				}
				return nil
			}
			ctx, cancel := context.WithCancel(context.Background())
			s := &c19Sess{
				cancel:   cancel,
				recv:     make(chan mocrelay.ClientMsg),
				send:     make(chan mocrelay.ServerMsg, 64),
				cmd:      make(chan mocrelay.ServerMsg),
				quit:     make(chan struct{}),
				started:  make(chan struct{}),
				innerGot: make(chan mocrelay.ClientMsg, 64),
				done:     make(chan error, 1),
			}
			s.ctx = context.WithValue(ctx, c19SessKey{}, s)
			mu.Lock()
			sess[st.S] = s
			seen[st.S] = true
			mu.Unlock()
			go func() {
				defer func() {
					if r := recover(); r != nil {
						s.done <- fmt.Errorf("panic: %v", r)
					}
				}()
				s.done <- h.ServeNostr(s.ctx, s.send, s.recv)
			}()
			select {
			case <-s.started:
			case e := <-s.done:
				s.done <- e
				return fmt.Errorf("session %d ended before its handler started: %v", st.S, e)
			case <-tmo:
				return errC19Timeout
			}
		case "dead":
			ctx, cancel := context.WithCancel(context.Background())
			cancel()
			s := &c19Sess{
				cancel:   cancel,
				recv:     make(chan mocrelay.ClientMsg),
				send:     make(chan mocrelay.ServerMsg, 64),
				cmd:      make(chan mocrelay.ServerMsg),
				quit:     make(chan struct{}),
				started:  make(chan struct{}),
				innerGot: make(chan mocrelay.ClientMsg, 64),
				done:     make(chan error, 1),
			}
			s.ctx = context.WithValue(ctx, c19SessKey{}, s)
			mu.Lock()
			seen[st.S] = true
			mu.Unlock()
			go func() {
				defer func() {
					if r := recover(); r != nil {
						s.done <- fmt.Errorf("panic: %v", r)
					}
				}()
				s.done <- h.ServeNostr(s.ctx, s.send, s.recv)
			}()
			select {
			case <-s.done:
			case <-tmo:
				return errC19Timeout
			}
		case "end":
			mu.Lock()
			s := sess[st.S]
			delete(sess, st.S)
			mu.Unlock()
			switch st.How {
			case "cancel":
				s.cancel()
			case "close":
				if host != nil {
					s.conn.CloseNow() // the client drops the connection
				} else {
					close(s.recv)
				}
			default:
				close(s.quit)
			}
			select {
			case <-s.done:
			case <-tmo:
				return errC19Timeout
			}
			s.cancel()
			if host != nil {
				s.conn.CloseNow()
			}
		case "c":
			if host != nil {
				mu.Lock()
				s := sess[st.S]
				mu.Unlock()
				wctx, wcancel := context.WithTimeout(context.Background(), limit)
				err := s.conn.Write(wctx, websocket.MessageText, c19WireClient(st.M))
				wcancel()
				if err != nil {
					return fmt.Errorf("session %d: write: %v", st.S, err)
				}
				select {
				case got := <-s.innerGot:
					v := c19SeenClient(got, -1)
					if c19SameContent(v, st.M) {
						v.UID = st.M.UID
					}
					mu.Lock()
					inner[st.S] = append(inner[st.S], v)
					mu.Unlock()
				case e := <-s.done:
					s.done <- e
					return fmt.Errorf("session %d ended early: %v", st.S, e)
				case <-tmo:
					return errC19Timeout
				}
				return nil
			}
			mu.Lock()
			s := sess[st.S]
			m := c19Client(st.M)
			uidOf[m] = st.M.UID
			mu.Unlock()
			select {
			case s.recv <- m:
			case e := <-s.done:
				s.done <- e
				return fmt.Errorf("session %d ended early: %v", st.S, e)
			case <-tmo:
				return errC19Timeout
			}
			select {
			case got := <-s.innerGot:
				v := c19SeenClient(got, lookup(got))
				mu.Lock()
				inner[st.S] = append(inner[st.S], v)
				mu.Unlock()
			case e := <-s.done:
				s.done <- e
				return fmt.Errorf("session %d ended early: %v", st.S, e)
			case <-tmo:
				return errC19Timeout
			}
		case "s":
			mu.Lock()
			s := sess[st.S]
			m := c19Server(st.M)
			uidOf[m] = st.M.UID
			mu.Unlock()
			select {
			case s.cmd <- m:
			case e := <-s.done:
				s.done <- e
				return fmt.Errorf("session %d ended early: %v", st.S, e)
			case <-tmo:
				return errC19Timeout
			}
			if host != nil {
				select {
				case v := <-s.wsIn:
					if c19SameContent(v, st.M) {
						v.UID = st.M.UID
					}
					mu.Lock()
					outer[st.S] = append(outer[st.S], v)
					mu.Unlock()
				case e := <-s.done:
					s.done <- e
					return fmt.Errorf("session %d ended early: %v", st.S, e)
				case <-tmo:
					return errC19Timeout
				}
				return nil
			}
			select {
			case got := <-s.send:
				v := c19SeenServer(got, lookup(got))
				mu.Lock()
				outer[st.S] = append(outer[st.S], v)
				mu.Unlock()
			case e := <-s.done:
				s.done <- e
				return fmt.Errorf("session %d ended early: %v", st.S, e)
			case <-tmo:
				return errC19Timeout
			}
		}
		return nil
	}

	for gi, g := range c.Groups {
		var wg sync.WaitGroup
		failed := false
		for _, st := range g {
			wg.Add(1)
			go func(st c19Step) {
				defer wg.Done()
				defer func() {
					if r := recover(); r != nil {
						note("group %d: panic in the harness driver: %v", gi, r)
						mu.Lock()
						failed = true
						mu.Unlock()
					}
				}()
				if err := do(st); err != nil {
					note("group %d, %s on session %d: %v", gi, st.Op, st.S, err)
					mu.Lock()
					failed = true
					mu.Unlock()
				}
			}(st)
		}
		wg.Wait()
		if failed {
			break
		}
		// nothing more may arrive on either side: a message the script did not send would show here
		for id, s := range sess {
			select {
			case got := <-s.innerGot:
				inner[id] = append(inner[id], c19SeenClient(got, lookup(got)))
			default:
			}
			select {
			case got := <-s.send: // (nil channel for transport ws)
				outer[id] = append(outer[id], c19SeenServer(got, lookup(got)))
			case v := <-s.wsIn: // (nil channel for the direct transport)
				outer[id] = append(outer[id], v)
			default:
			}
		}
		sn, err := c19Gather(reg)
		if err != nil {
			note("group %d: gather: %v", gi, err)
		}
		c.Obs = append(c.Obs, sn)
	}
	// sessions still alive at the end of the script are torn down without being observed
	for _, s := range sess {
		s.cancel()
		select {
		case <-s.done:
		case <-time.After(limit):
			note("teardown: a session did not end")
		}
		if s.conn != nil {
			s.conn.CloseNow()
		}
	}
	ids := make([]int, 0, len(seen))
	for id := range seen {
		ids = append(ids, id)
	}
	sort.Ints(ids)
	for _, id := range ids {
		im, om := inner[id], outer[id]
		if im == nil {
			im = []c19Msg{}
		}
		if om == nil {
			om = []c19Msg{}
		}
		c.Inner = append(c.Inner, c19View{id, im})
		c.Outer = append(c.Outer, c19View{id, om})
	}
}

// the empty id is legal (the parser accepts ["REQ","",{}]); two ids longer than 64 bytes that share their first 64 bytes
var c19Subs = []string{"a", "b", "c", "", strings.Repeat("s", 64) + "a", strings.Repeat("s", 64) + "b"}

// Event.Kind is an int64 and the property quantifies over all histories: beside kinds of the
// NIP-01 range (0..65535, with both ends) the universe holds kinds outside of it that agree
// with a smaller member modulo 2^16 or 2^32 (what a narrower integer would keep of them), and
// the ends of the int64 range.  The first five are drawn three times as often.
var c19Kinds = []int64{0, 1, 7, 30023, -1, 0, 1, 7, 30023, -1, 0, 1, 7, 30023, -1,
	65535, 65536, 65537, 131073, -65535, 1 << 32, 1<<32 + 1, 1<<63 - 1, -1 << 63}

// ws: a history for the transport "ws" (c19ws.go): 2..5 sessions, every start carries an
// X-Request-Id header value from c19Hdrs, only messages the wire can carry.
func c19Gen(r *common.Rand, thorough bool, ws bool) [][]c19Step {
	maxSess := 1 + r.Intn(8)
	if ws {
		maxSess = 2 + r.Intn(4)
	}
	n := 4 + r.Intn(36)
	if thorough {
		n = 4 + r.Intn(70)
	}
	var live []int
	next := 0
	var groups [][]c19Step
	pickMsg := func(client bool) *c19Msg {
		m := &c19Msg{}
		p := r.Intn(100)
		if ws && client {
			switch {
			case p < 55:
				m.T, m.Sub = "REQ", common.Pick(r, c19Subs)
			case p < 88:
				m.T, m.Sub = "CLOSE", common.Pick(r, c19Subs)
			default:
				m.T, m.Sub = "COUNT", common.Pick(r, c19Subs)
			}
			return m
		}
		if client {
			switch {
			case p < 36:
				m.T, m.Sub = "REQ", common.Pick(r, c19Subs)
			case p < 60:
				m.T, m.Sub = "CLOSE", common.Pick(r, c19Subs)
			case p < 80:
				m.T, m.Kind = "EVENT", common.Pick(r, c19Kinds)
			case p < 87:
				m.T, m.Sub = "COUNT", common.Pick(r, c19Subs)
			case p < 93:
				m.T = "AUTH"
			default:
				m.T = "OTHER"
			}
		} else {
			switch {
			case p < 28:
				m.T, m.Sub = "CLOSED", common.Pick(r, c19Subs)
			case p < 48:
				m.T, m.Sub = "EOSE", common.Pick(r, c19Subs)
			case p < 66:
				m.T, m.Sub = "EVENT", common.Pick(r, c19Subs)
			case p < 76:
				m.T = "OK"
			case p < 84:
				m.T = "NOTICE"
			case p < 91:
				m.T, m.Sub = "COUNT", common.Pick(r, c19Subs)
			case p < 96:
				m.T = "AUTH"
			default:
				m.T = "OTHER"
				if ws {
					m.T = "NOTICE"
				}
			}
		}
		return m
	}
	one := func(exclude map[int]bool) (c19Step, bool) {
		var cand []int
		for _, s := range live {
			if !exclude[s] {
				cand = append(cand, s)
			}
		}
		p := r.Intn(100)
		if !ws && r.Chance(3) && next < maxSess {
			s := next
			next++
			return c19Step{Op: "dead", S: s}, true
		}
		if len(live) == 0 || (p < 12 && next < maxSess) || (ws && len(live) < 2 && next < maxSess && r.Chance(50)) {
			if next >= maxSess {
				return c19Step{}, false
			}
			s := next
			next++
			live = append(live, s)
			if ws {
				return c19Step{Op: "start", S: s, Hdr: common.Pick(r, c19Hdrs)}, true
			}
			return c19Step{Op: "start", S: s}, true
		}
		if len(cand) == 0 {
			return c19Step{}, false
		}
		s := common.Pick(r, cand)
		switch {
		case p < 22:
			for i, x := range live {
				if x == s {
					live = append(live[:i], live[i+1:]...)
					break
				}
			}
			return c19Step{Op: "end", S: s, How: common.Pick(r, []string{"quit", "cancel", "close"})}, true
		case p < 66:
			return c19Step{Op: "c", S: s, M: pickMsg(true)}, true
		default:
			return c19Step{Op: "s", S: s, M: pickMsg(false)}, true
		}
	}
	for len(groups) < n {
		if len(live) == 0 && next >= maxSess {
			break
		}
		size := 1
		if r.Chance(15) {
			size = 2 + r.Intn(4)
		}
		var g []c19Step
		ex := map[int]bool{}
		for i := 0; i < size; i++ {
			st, ok := one(ex)
			if !ok {
				break
			}
			ex[st.S] = true
			g = append(g, st)
		}
		if len(g) > 0 {
			groups = append(groups, g)
		}
	}
	// often end every remaining session, so that sessions ending with open subscriptions are common
	if r.Chance(60) {
		for _, s := range live {
			groups = append(groups, []c19Step{{Op: "end", S: s, How: common.Pick(r, []string{"quit", "cancel", "close"})}})
		}
	}
	return groups
}

// c19ManyKinds: a relay that runs for a long time sees many different kinds.  25 sessions on one middleware
// value submit 1100 events of 1100 different kinds (44 rounds of 25 concurrent submissions), end, and a later
// session submits the first and the last kind once more: every per-kind counter must still be there.
func c19ManyKinds() [][]c19Step {
	const ns, rounds = 25, 44
	var groups [][]c19Step
	var g []c19Step
	for s := 0; s < ns; s++ {
		g = append(g, c19Step{Op: "start", S: s})
	}
	groups = append(groups, g)
	for j := 0; j < rounds; j++ {
		g = nil
		for s := 0; s < ns; s++ {
			g = append(g, c19Step{Op: "c", S: s, M: &c19Msg{T: "EVENT", Kind: int64(j*ns + s)}})
		}
		groups = append(groups, g)
	}
	g = nil
	for s := 0; s < ns; s++ {
		g = append(g, c19Step{Op: "end", S: s, How: "quit"})
	}
	groups = append(groups, g)
	groups = append(groups, []c19Step{{Op: "start", S: ns}})
	groups = append(groups, []c19Step{{Op: "c", S: ns, M: &c19Msg{T: "EVENT", Kind: 0}}})
	groups = append(groups, []c19Step{{Op: "c", S: ns, M: &c19Msg{T: "EVENT", Kind: rounds*ns - 1}}})
	groups = append(groups, []c19Step{{Op: "end", S: ns, How: "quit"}})
	return groups
}

func init() {
	subcmds["c19"] = func(seed uint64, n int, out *common.Out, replay string) {
		if c19WorkerMode() {
			c19Worker()
			return
		}
		// cases are independent (own registry, own sessions): run them on a few workers, emit in order;
		// the cases of the transport "ws" are run one at a time by worker processes (c19ws.go)
		var results []c19Case
		var gen func(i int) c19Case
		if replay != "" {
			lines := common.ReadLines(replay)
			n = len(lines)
			gen = func(i int) c19Case {
				var c c19Case
				if err := json.Unmarshal(lines[i], &c); err != nil {
					common.Fatalf("bad replay case: %v", err)
				}
				return c
			}
		} else {
			root := common.NewRand(seed)
			direct := n
			// one tenth more histories through Relay.ServeHTTP
			wsRoot := root.Fork(1 << 42)
			n = direct + direct/10
			gen = func(i int) c19Case {
				if i >= direct {
					return c19Case{Via: c19WS, Groups: c19Gen(wsRoot.Fork(uint64(i-direct)), direct >= 10000, true)}
				}
				if i == 0 && direct >= 10000 {
					// thorough tier only: the model needs about three minutes for this one history
					return c19Case{Groups: c19ManyKinds()}
				}
				return c19Case{Groups: c19Gen(root.Fork(uint64(i)), direct >= 10000, false)}
			}
		}
		results = make([]c19Case, n)
		const workers = 8
		var wg sync.WaitGroup
		jobs := make(chan int)
		var wsIdx []int
		var wsCases []c19Case
		var wsMu sync.Mutex
		for w := 0; w < workers; w++ {
			wg.Add(1)
			go func() {
				defer wg.Done()
				for i := range jobs {
					c := gen(i)
					if c.Via == c19WS {
						wsMu.Lock()
						wsIdx = append(wsIdx, i)
						wsCases = append(wsCases, c)
						wsMu.Unlock()
						continue
					}
					before := raceBytes()
					c19Run(&c)
					concurrent := false
					for _, g := range c.Groups {
						if len(g) > 1 {
							concurrent = true
						}
					}
					if concurrent && raceBytes() > before {
						// attribution is per time window and only to cases that inject steps concurrently:
						// with several workers a neighbouring case may be marked as well, and the detector
						// reports each racing pair of stacks once per process
						c.Clean = false
						c.Notes = append(c.Notes, "the race detector reported a data race while this case ran (report on the harness's stderr)")
					}
					results[i] = c
				}
			}()
		}
		for i := 0; i < n; i++ {
			jobs <- i
		}
		close(jobs)
		wg.Wait()
		if len(wsCases) > 0 {
			// two worker processes, each one case at a time
			half := len(wsCases) / 2
			parts := [][2]int{{0, half}, {half, len(wsCases)}}
			var wg2 sync.WaitGroup
			for _, pr := range parts {
				if pr[0] == pr[1] {
					continue
				}
				wg2.Add(1)
				go func(a, b int) {
					defer wg2.Done()
					for k, c := range c19RunIsolated(wsCases[a:b]) {
						results[wsIdx[a+k]] = c
					}
				}(pr[0], pr[1])
			}
			wg2.Wait()
		}
		for i := range results {
			out.Emit(results[i])
		}
	}
}
