// prom harness: drives the real Prometheus middleware (middleware/prometheus).
// usage: prom <sub-command> -seed N -n N -out FILE [-replay FILE]
//
// When built with -race the binary re-executes itself with
// GORACE="exitcode=0 log_path=<dir>/race", so that a data race found by the
// detector does not abort the run: the case during which the report appeared is
// marked as failed (raceBytes below) and the reports are copied to stderr.
package main

import (
	"flag"
	"fmt"
	"io"
	"os"
	"os/exec"
	"path/filepath"

	"verif/harness/common"
)

type subcmd func(seed uint64, n int, out *common.Out, replay string)

var subcmds = map[string]subcmd{}

// raceDir: where the race detector writes its reports ("" when not in use)
var raceDir = os.Getenv("VERIF_RACE_DIR")

// raceBytes: total size of the race reports written so far
func raceBytes() int64 {
	if raceDir == "" {
		return 0
	}
	es, err := os.ReadDir(raceDir)
	if err != nil {
		return 0
	}
	var n int64
	for _, e := range es {
		if fi, err := e.Info(); err == nil {
			n += fi.Size()
		}
	}
	return n
}

func reexecUnderRaceLog(outPath string) {
	dir, err := os.MkdirTemp(filepath.Dir(outPath), "race-")
	if err != nil {
		return // run without the log; a race then ends the process with exit code 66
	}
	defer os.RemoveAll(dir)
	cmd := exec.Command(os.Args[0], os.Args[1:]...)
	cmd.Env = append(os.Environ(), "VERIF_RACE_DIR="+dir, "GORACE=exitcode=0 log_path="+filepath.Join(dir, "race"))
	cmd.Stdout, cmd.Stderr = os.Stdout, os.Stderr
	err = cmd.Run()
	if es, e := os.ReadDir(dir); e == nil {
		for _, f := range es {
			if fh, e := os.Open(filepath.Join(dir, f.Name())); e == nil {
				io.Copy(os.Stderr, fh)
				fh.Close()
			}
		}
	}
	os.RemoveAll(dir)
	if ee, ok := err.(*exec.ExitError); ok {
		os.Exit(ee.ExitCode())
	}
	if err != nil {
		fmt.Fprintln(os.Stderr, "prom:", err)
		os.Exit(2)
	}
	os.Exit(0)
}

func main() {
	if len(os.Args) < 2 {
		common.Fatalf("usage: prom <sub-command> flags")
	}
	name := os.Args[1]
	fs := flag.NewFlagSet(name, flag.ExitOnError)
	seed := fs.Uint64("seed", 1, "PRNG seed")
	n := fs.Int("n", 100, "number of cases")
	outp := fs.String("out", "", "output JSONL")
	replay := fs.String("replay", "", "JSONL of inputs to re-run instead of generating")
	fs.Parse(os.Args[2:])
	f, ok := subcmds[name]
	if !ok {
		common.Fatalf("unknown sub-command %s", name)
	}
	if *outp == "" {
		common.Fatalf("-out required")
	}
	if raceBuild && raceDir == "" {
		reexecUnderRaceLog(*outp)
	}
	out := common.NewOut(*outp)
	defer out.Close()
	f(*seed, *n, out, *replay)
	fmt.Fprintf(os.Stderr, "%s: %d cases\n", name, out.N)
}
