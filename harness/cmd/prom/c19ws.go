package main

// C19, transport "ws": the sessions of a case are real WebSocket connections
// on the loopback interface, served by the REAL mocrelay.Relay.ServeHTTP whose
// handler is the prometheus middleware around the scripted inner handler.  This
// is how the middleware is deployed (cmd/mocrelay): the context of a session
// is the one Relay.ServeHTTP builds from the upgrade request — it carries the
// *http.Request with the client's headers.  The client chooses the headers; a
// start step carries the value of X-Request-Id ("hdr", from a universe of two
// values and "none"), so that live sessions with equal headers are common.
//
// What a client can send through the relay is what the relay's reader lets
// pass: REQ, CLOSE and COUNT (EVENT and AUTH would need signed events; they
// and the undefined message types are exercised by the direct transport).
// Server messages are everything the wire format knows (no undefined type).
//
// The http handler in front of the relay finds the harness' session record by
// a second header (X-Verif-Session) and puts it into the request's context,
// where the scripted inner handler looks for it; it also wraps the context so
// that "end by cancellation" is possible.
//
// A panic inside a goroutine of the middleware or the relay cannot be
// recovered by the harness; cases of this transport are therefore run by a
// worker process (this binary with C19_WORKER=1, cases on stdin, results on
// stdout), one case at a time; when the worker dies the case it was running is
// recorded as not clean ("crash: ...") and a new worker takes the next case.

import (
	"bufio"
	"bytes"
	"context"
	"encoding/json"
	"fmt"
	"net/http"
	"net/http/httptest"
	"os"
	"os/exec"
	"strconv"
	"strings"
	"sync"
	"time"

	"github.com/coder/websocket"
	"github.com/high-moctane/mocrelay"
	"verif/harness/common"
)

const c19WS = "ws"

var c19Hdrs = []string{"", "r1", "r1", "r2"}

// c19WSHost: the relay of one case behind a loopback http server.
type c19WSHost struct {
	srv   *httptest.Server
	mu    sync.Mutex
	sess  map[int]*c19Sess // sessions whose upgrade request is expected or in progress
	relay *mocrelay.Relay
}

func c19NewWSHost(h mocrelay.Handler) *c19WSHost {
	host := &c19WSHost{sess: map[int]*c19Sess{}}
	host.relay = mocrelay.NewRelay(h, &mocrelay.RelayOption{
		SendTimeout:        10 * time.Second,
		RecvRateLimitRate:  1e6,
		RecvRateLimitBurst: 1000,
		MaxMessageLength:   100_000,
	})
	host.srv = httptest.NewServer(http.HandlerFunc(func(w http.ResponseWriter, r *http.Request) {
		id, err := strconv.Atoi(r.Header.Get("X-Verif-Session"))
		host.mu.Lock()
		s := host.sess[id]
		delete(host.sess, id)
		host.mu.Unlock()
		if err != nil || s == nil {
			http.Error(w, "unknown session", http.StatusBadRequest)
			return
		}
		ctx, cancel := context.WithCancel(context.WithValue(r.Context(), c19SessKey{}, s))
		s.cancel = cancel // read by the harness after <-s.started only
		defer cancel()
		defer func() {
			if p := recover(); p != nil {
				s.done <- fmt.Errorf("panic: %v", p)
				return
			}
			s.done <- nil
		}()
		host.relay.ServeHTTP(w, r.WithContext(ctx))
	}))
	return host
}

func (host *c19WSHost) close() {
	host.srv.CloseClientConnections()
	host.srv.Close()
}

// start dials the relay; the reader goroutine turns what the client receives
// into c19Msg values (type and subscription id, read off the wire).
func (host *c19WSHost) start(id int, s *c19Sess, hdr string, limit time.Duration) error {
	host.mu.Lock()
	host.sess[id] = s
	host.mu.Unlock()
	ctx, cancel := context.WithTimeout(context.Background(), limit)
	defer cancel()
	hd := http.Header{}
	hd.Set("X-Verif-Session", strconv.Itoa(id))
	if hdr != "" {
		hd.Set("X-Request-Id", hdr)
	}
	conn, _, err := websocket.Dial(ctx, "ws"+strings.TrimPrefix(host.srv.URL, "http"), &websocket.DialOptions{HTTPHeader: hd})
	if err != nil {
		return fmt.Errorf("dial: %v", err)
	}
	conn.SetReadLimit(1 << 20)
	s.conn = conn
	s.wsIn = make(chan c19Msg, 64)
	go func() {
		for {
			_, payload, err := conn.Read(context.Background())
			if err != nil {
				return
			}
			s.wsIn <- c19WireServer(payload)
		}
	}()
	return nil
}

// c19WireClient: the text a client writes for a scripted client message.
func c19WireClient(m *c19Msg) []byte {
	var v []any
	switch m.T {
	case "REQ":
		v = []any{"REQ", m.Sub, map[string]any{}}
	case "CLOSE":
		v = []any{"CLOSE", m.Sub}
	case "COUNT":
		v = []any{"COUNT", m.Sub, map[string]any{}}
	default:
		v = []any{m.T}
	}
	b, _ := json.Marshal(v)
	return b
}

// c19WireServer: what arrived on the client side, read off the wire.
func c19WireServer(payload []byte) c19Msg {
	var arr []json.RawMessage
	if err := json.Unmarshal(payload, &arr); err != nil || len(arr) == 0 {
		return c19Msg{T: "OTHER", UID: -1}
	}
	var label string
	if json.Unmarshal(arr[0], &label) != nil {
		return c19Msg{T: "OTHER", UID: -1}
	}
	m := c19Msg{T: label, UID: -1}
	switch label {
	case "EOSE", "EVENT", "COUNT", "CLOSED":
		if len(arr) > 1 {
			json.Unmarshal(arr[1], &m.Sub)
		}
	case "NOTICE", "OK", "AUTH":
	default:
		m.T = "OTHER"
	}
	return m
}

// over the wire a message has no identity beyond its content: the uid of the view is the one of
// the scripted message when type and subscription id are the scripted ones (one message per
// session is in flight)
func c19SameContent(a c19Msg, b *c19Msg) bool { return a.T == b.T && a.Sub == b.Sub }

func c19WSAllowedClient(t string) bool { return t == "REQ" || t == "CLOSE" || t == "COUNT" }
func c19WSAllowedServer(t string) bool {
	switch t {
	case "EOSE", "EVENT", "NOTICE", "OK", "AUTH", "COUNT", "CLOSED":
		return true
	}
	return false
}

// ---- process isolation ------------------------------------------------------

func c19WorkerMode() bool { return os.Getenv("C19_WORKER") == "1" }

func c19Worker() {
	in := bufio.NewScanner(os.Stdin)
	in.Buffer(make([]byte, 1<<20), 1<<28)
	w := bufio.NewWriter(os.Stdout)
	for in.Scan() {
		if len(in.Bytes()) == 0 {
			continue
		}
		var c c19Case
		if err := json.Unmarshal(in.Bytes(), &c); err != nil {
			common.Fatalf("worker: bad case: %v", err)
		}
		before := raceBytes()
		c19Run(&c)
		if raceBytes() > before {
			c.Clean = false
			c.Notes = append(c.Notes, "the race detector reported a data race while this case ran (report on the harness's stderr)")
		}
		b, _ := json.Marshal(c)
		w.Write(b)
		w.WriteByte('\n')
		w.Flush()
	}
}

// c19RunIsolated runs the cases one at a time in worker processes.
func c19RunIsolated(cases []c19Case) []c19Case {
	res := make([]c19Case, 0, len(cases))
	start := 0
	for start < len(cases) {
		cmd := exec.Command(os.Args[0], "c19", "-out", os.DevNull)
		cmd.Env = append(os.Environ(), "C19_WORKER=1")
		var input bytes.Buffer
		for i := start; i < len(cases); i++ {
			b, _ := json.Marshal(c19Case{Groups: cases[i].Groups, Via: cases[i].Via})
			input.Write(b)
			input.WriteByte('\n')
		}
		cmd.Stdin = &input
		var stderr bytes.Buffer
		cmd.Stderr = &stderr
		stdout, err := cmd.StdoutPipe()
		if err != nil {
			common.Fatalf("cannot start worker: %v", err)
		}
		if err := cmd.Start(); err != nil {
			common.Fatalf("cannot start worker: %v", err)
		}
		sc := bufio.NewScanner(stdout)
		sc.Buffer(make([]byte, 1<<20), 1<<28)
		got := 0
		for sc.Scan() {
			var c c19Case
			if err := json.Unmarshal(sc.Bytes(), &c); err != nil {
				break
			}
			res = append(res, c)
			got++
		}
		werr := cmd.Wait()
		start += got
		if start >= len(cases) {
			break
		}
		// the worker died while running cases[start]
		c := c19Case{Groups: c19Normalize(cases[start].Groups, cases[start].Via), Via: cases[start].Via,
			Obs: []c19Snap{}, Inner: []c19View{}, Outer: []c19View{}}
		msg := ""
		for _, l := range strings.Split(stderr.String(), "\n") {
			l = strings.TrimSpace(l)
			if strings.HasPrefix(l, "panic:") || strings.HasPrefix(l, "fatal error:") {
				msg = l
				break
			}
		}
		if msg == "" {
			msg = strings.TrimSpace(stderr.String())
			if k := strings.IndexByte(msg, '\n'); k >= 0 {
				msg = msg[:k]
			}
		}
		if msg == "" && werr != nil {
			msg = werr.Error()
		}
		c.Notes = []string{"crash: " + msg}
		res = append(res, c)
		start++
	}
	return res
}
