package main

// C12: one case = one real WebSocket connection (github.com/coder/websocket
// client) to the REAL mocrelay.NewRelay(recording handler, opt) behind
// httptest.NewServer (every other case mounted through mocrelay.ServeMux).
//
// Per frame the case carries
//   exp  the harness's own classification, from how the frame was built
//        (own NIP-01 serialisation + BIP-340 signature, own notion of a valid
//        field; utf8/json by the standard library),
//   obs  the outcomes of the relay's individual checks called directly on the
//        payload (ParseClientMsg, ValidClientMsg, Event.Verify) — the input of
//        the Coq model of serveRead,
// and the observation: what the handler received (identified by a canonical
// rendering), what it emitted, and every frame the client read, decoded with
// the real UnmarshalJSON of the seven server message types.
//
// Determinism.  The client reads in ONE goroutine without per-read deadlines.
// In lock-step cases the driver sends one frame and then waits (bounded) until
// the handler has finished handling a new message (its scripted replies have
// been taken by the write loop) or the client has read a new frame that is not
// a scripted reply.  In pipelined cases all frames are sent at once.  Every
// case ends with a valid CLOSE whose scripted reply is a sentinel; the driver
// waits (bounded, generously) for the sentinel, closes, and keeps whatever the
// reader still gets.  Verdicts do not depend on the schedule: the gate handles
// frames sequentially and the handler is one goroutine, so the handler's
// input, its emission order, and the order of the gate's notices are fixed;
// only the interleaving of the two is schedule dependent, and it is compared
// (model side only) in lock-step cases in which no wait timed out.

import (
	"bytes"
	"context"
	"crypto/sha256"
	"encoding/base64"
	"encoding/hex"
	"encoding/json"
	"fmt"
	"io"
	"log/slog"
	"net/http"
	"net/http/httptest"
	"os"
	"runtime"
	"sort"
	"strconv"
	"strings"
	"sync"
	"sync/atomic"
	"time"
	"unicode/utf8"

	"github.com/btcsuite/btcd/btcec/v2"
	"github.com/btcsuite/btcd/btcec/v2/schnorr"
	"github.com/coder/websocket"
	"github.com/high-moctane/mocrelay"
	"verif/harness/common"
)

func init() { subcmds["c12"] = c12Main }

// ---------------------------------------------------------------------------
// JSON shapes

type c12Class struct {
	Text   bool   `json:"text"`
	UTF8   bool   `json:"utf8"`
	JSON   bool   `json:"json"`
	Parse  string `json:"parse"` // EVENT REQ CLOSE AUTH COUNT, "" = does not parse
	Valid  bool   `json:"valid"`
	Verify string `json:"verify"` // ok | bad | err | na
	EvID   string `json:"evid"`
}

type c12Out struct {
	K      int            `json:"k"` // serial number within the case
	T      string         `json:"t"` // EOSE EVENT NOTICE OK AUTH COUNT CLOSED
	A      string         `json:"a"` // subscription id / event id / message / challenge
	B      string         `json:"b"` // message (OK, CLOSED)
	P      string         `json:"p"` // machine readable prefix (OK, CLOSED)
	Acc    bool           `json:"acc"`
	N      uint64         `json:"n"`
	Approx *bool          `json:"approx"`
	Ev     *common.JEvent `json:"ev"`
}

type c12Frame struct {
	Cls string `json:"cls"`
	Bin bool   `json:"bin"`
	B64 string `json:"b64"`
	// Frag: byte offsets at which the message is cut into WebSocket fragments (a data frame with
	// fin=0 per piece, pieces may be empty, then an empty CONTINUATION frame with fin=1); empty =
	// the whole message in one frame.  Fragmentation is transparent in RFC 6455: the message is the same.
	Frag []int    `json:"frag,omitempty"`
	Txt  string   `json:"txt"` // the payload again, for the reader of a replay file (not an input)
	Exp  c12Class `json:"exp"`
	Key  string   `json:"key"` // canonical rendering of the message the frame is meant to carry ("" = none)
	Sub  *string  `json:"sub"`
	Out  []c12Out `json:"out"`
	// observation of the individual checks
	Obs *c12Class `json:"obs,omitempty"`
}

type c12Recv struct {
	F    int  `json:"f"` // index of the frame whose message this is, -1 = none
	Same bool `json:"same"`
}

type c12Item struct {
	K   int    `json:"k"` // serial number of the scripted message this frame decodes to, -1 = none
	O   string `json:"o"` // scripted | notice | ok | closed | other | binary | undecodable
	A   string `json:"a"`
	Acc bool   `json:"acc"`
}

type c12Case struct {
	Lockstep bool  `json:"lockstep"`
	Mux      bool  `json:"mux"`
	MaxLen   int64 `json:"maxlen"` // RelayOption.MaxMessageLength (0 = 1 MiB); every client frame is shorter
	// Opts: 0 = SendTimeout 30 s, ping every minute; 1 = SendTimeout 0 (no write deadline), ping every minute;
	// 2 = SendTimeout 0 and PingDuration 0 (both switched off); 3 = SendTimeout 30 s, PingDuration 0
	// 5 = SendTimeout 600 ms, ping every minute, and the client waits 900 ms before its last frame
	// 4 = no RelayOption at all (NewRelay(h, nil): the defaults, receive rate 10/s with burst 10, limit 100000 bytes)
	Opts int `json:"opts"`
	// MuxLog: the ServeMux has a Logger
	MuxLog bool       `json:"muxlog,omitempty"`
	Frames []c12Frame `json:"frames"`
	// observation
	RanLockstep bool      `json:"ran_lockstep"` // lock-step requested and no wait timed out
	Recv        []c12Recv `json:"recv"`
	Emitted     []int     `json:"emitted"`
	Client      []c12Item `json:"client"`
	Notes       []string  `json:"notes"`
}

// ---------------------------------------------------------------------------
// the harness's own NIP-01 serialisation and signature

func c12EscapeString(s string) string {
	var b strings.Builder
	b.WriteByte('"')
	for i := 0; i < len(s); i++ {
		c := s[i]
		switch c {
		case '"':
			b.WriteString(`\"`)
		case '\\':
			b.WriteString(`\\`)
		case '\n':
			b.WriteString(`\n`)
		case '\r':
			b.WriteString(`\r`)
		case '\t':
			b.WriteString(`\t`)
		case '\b':
			b.WriteString(`\b`)
		case '\f':
			b.WriteString(`\f`)
		default:
			if c < 0x20 {
				fmt.Fprintf(&b, `\u%04x`, c)
			} else {
				b.WriteByte(c) // every other character verbatim (UTF-8 bytes as they are)
			}
		}
	}
	b.WriteByte('"')
	return b.String()
}

func c12Canonical(e *common.JEvent) []byte {
	var b strings.Builder
	b.WriteString("[0,")
	b.WriteString(c12EscapeString(e.PK))
	b.WriteByte(',')
	b.WriteString(strconv.FormatInt(e.TS, 10))
	b.WriteByte(',')
	b.WriteString(strconv.FormatInt(e.Kind, 10))
	b.WriteString(",[")
	for i, t := range e.Tags {
		if i > 0 {
			b.WriteByte(',')
		}
		b.WriteByte('[')
		for j, v := range t {
			if j > 0 {
				b.WriteByte(',')
			}
			b.WriteString(c12EscapeString(v))
		}
		b.WriteByte(']')
	}
	b.WriteString("],")
	b.WriteString(c12EscapeString(e.Content))
	b.WriteByte(']')
	return []byte(b.String())
}

type c12Key struct {
	priv *btcec.PrivateKey
	pk   string
}

var c12Keys = func() []c12Key {
	var ks []c12Key
	for i := 0; i < 3; i++ {
		h := sha256.Sum256([]byte("c12-key-" + strconv.Itoa(i)))
		priv, pub := btcec.PrivKeyFromBytes(h[:])
		ks = append(ks, c12Key{priv, hex.EncodeToString(schnorr.SerializePubKey(pub))})
	}
	return ks
}()

// c12NoPoint: 32 bytes of lower-case hex that schnorr.ParsePubKey refuses.
var c12NoPoint = func() string {
	for i := 0; ; i++ {
		h := sha256.Sum256([]byte("c12-nopoint-" + strconv.Itoa(i)))
		if _, err := schnorr.ParsePubKey(h[:]); err != nil {
			return hex.EncodeToString(h[:])
		}
	}
}()

// c12Sign fills PK, ID and Sig of e (BIP-340 over SHA-256 of the harness's own serialisation).
func c12Sign(k c12Key, e *common.JEvent) {
	e.PK = k.pk
	h := sha256.Sum256(c12Canonical(e))
	e.ID = hex.EncodeToString(h[:])
	sig, err := schnorr.Sign(k.priv, h[:])
	if err != nil {
		panic(err)
	}
	e.Sig = hex.EncodeToString(sig.Serialize())
}

// ---------------------------------------------------------------------------
// canonical rendering of client messages (to identify what the handler received)

type c12RTag struct {
	N string   `json:"n"`
	V []string `json:"v"`
}

type c12RFilter struct {
	IDs     *[]string  `json:"ids"`
	Authors *[]string  `json:"authors"`
	Kinds   *[]int64   `json:"kinds"`
	Tags    *[]c12RTag `json:"tags"`
	Since   *int64     `json:"since"`
	Until   *int64     `json:"until"`
	Limit   *int64     `json:"limit"`
}

type c12RMsg struct {
	Label   string         `json:"l"`
	Sub     string         `json:"s"`
	Filters []c12RFilter   `json:"f"`
	Event   *common.JEvent `json:"e"`
}

func c12RenderMsg(m c12RMsg) string {
	for i := range m.Filters {
		if m.Filters[i].Tags != nil {
			ts := append([]c12RTag{}, (*m.Filters[i].Tags)...)
			sort.SliceStable(ts, func(a, b int) bool { return ts[a].N < ts[b].N })
			m.Filters[i].Tags = &ts
		}
	}
	var buf bytes.Buffer
	enc := json.NewEncoder(&buf)
	enc.SetEscapeHTML(false)
	if err := enc.Encode(m); err != nil {
		panic(err)
	}
	return strings.TrimSpace(buf.String())
}

func c12FilterOf(f *mocrelay.ReqFilter) c12RFilter {
	var r c12RFilter
	if f == nil {
		return r
	}
	if f.IDs != nil {
		r.IDs = common.Ptr(append([]string{}, f.IDs...))
	}
	if f.Authors != nil {
		r.Authors = common.Ptr(append([]string{}, f.Authors...))
	}
	if f.Kinds != nil {
		r.Kinds = common.Ptr(append([]int64{}, f.Kinds...))
	}
	if f.Tags != nil {
		ts := []c12RTag{}
		for k, v := range f.Tags {
			ts = append(ts, c12RTag{k, append([]string{}, v...)})
		}
		r.Tags = &ts
	}
	r.Since, r.Until, r.Limit = f.Since, f.Until, f.Limit
	return r
}

func c12EventOf(e *mocrelay.Event) *common.JEvent {
	if e == nil {
		return nil
	}
	j := common.FromEvent(e)
	return &j
}

// c12RenderReceived renders what the relay handed to the handler.
func c12RenderReceived(m mocrelay.ClientMsg) string {
	switch m := m.(type) {
	case *mocrelay.ClientEventMsg:
		return c12RenderMsg(c12RMsg{Label: "EVENT", Event: c12EventOf(m.Event)})
	case *mocrelay.ClientAuthMsg:
		return c12RenderMsg(c12RMsg{Label: "AUTH", Event: c12EventOf(m.Event)})
	case *mocrelay.ClientCloseMsg:
		return c12RenderMsg(c12RMsg{Label: "CLOSE", Sub: m.SubscriptionID})
	case *mocrelay.ClientReqMsg:
		r := c12RMsg{Label: "REQ", Sub: m.SubscriptionID}
		for _, f := range m.ReqFilters {
			r.Filters = append(r.Filters, c12FilterOf(f))
		}
		return c12RenderMsg(r)
	case *mocrelay.ClientCountMsg:
		r := c12RMsg{Label: "COUNT", Sub: m.SubscriptionID}
		for _, f := range m.ReqFilters {
			r.Filters = append(r.Filters, c12FilterOf(f))
		}
		return c12RenderMsg(r)
	}
	return fmt.Sprintf("?%T", m)
}

// ---------------------------------------------------------------------------
// scripted server messages

func c12ServerMsg(o c12Out) mocrelay.ServerMsg {
	switch o.T {
	case "EOSE":
		return mocrelay.NewServerEOSEMsg(o.A)
	case "EVENT":
		return mocrelay.NewServerEventMsg(o.A, o.Ev.ToEvent())
	case "NOTICE":
		return mocrelay.NewServerNoticeMsg(o.A)
	case "OK":
		return mocrelay.NewServerOKMsg(o.A, o.Acc, o.P, o.B)
	case "AUTH":
		return &mocrelay.ServerAuthMsg{Challenge: o.A}
	case "COUNT":
		return mocrelay.NewServerCountMsg(o.A, o.N, o.Approx)
	case "CLOSED":
		return mocrelay.NewServerClosedMsg(o.A, o.P, o.B)
	}
	panic("c12: unknown scripted message type " + o.T)
}

func c12RenderEvent(e *mocrelay.Event) string {
	if e == nil {
		return "nil"
	}
	return fmt.Sprintf("%q %q %d %d %q %q %q", e.ID, e.Pubkey, e.CreatedAt, e.Kind, e.Tags, e.Content, e.Sig)
}

func c12RenderServer(m mocrelay.ServerMsg) string {
	switch m := m.(type) {
	case *mocrelay.ServerEOSEMsg:
		return fmt.Sprintf("EOSE %q", m.SubscriptionID)
	case *mocrelay.ServerEventMsg:
		return fmt.Sprintf("EVENT %q %s", m.SubscriptionID, c12RenderEvent(m.Event))
	case *mocrelay.ServerNoticeMsg:
		return fmt.Sprintf("NOTICE %q", m.Message)
	case *mocrelay.ServerOKMsg:
		return fmt.Sprintf("OK %q %v %q", m.EventID, m.Accepted, m.MsgPrefix+m.Msg)
	case *mocrelay.ServerAuthMsg:
		return fmt.Sprintf("AUTH %q", m.Challenge)
	case *mocrelay.ServerCountMsg:
		a := "nil"
		if m.Approximate != nil {
			a = strconv.FormatBool(*m.Approximate)
		}
		return fmt.Sprintf("COUNT %q %d %s", m.SubscriptionID, m.Count, a)
	case *mocrelay.ServerClosedMsg:
		return fmt.Sprintf("CLOSED %q %q", m.SubscriptionID, m.MsgPrefix+m.Msg)
	}
	return fmt.Sprintf("?%T", m)
}

// c12Decode decodes a text frame with the real UnmarshalJSON of the server
// message types (the label decides which one is tried).
func c12Decode(p []byte) mocrelay.ServerMsg {
	var elems []json.RawMessage
	if json.Unmarshal(p, &elems) != nil || len(elems) == 0 {
		return nil
	}
	var label string
	if json.Unmarshal(elems[0], &label) != nil {
		return nil
	}
	var m interface {
		mocrelay.ServerMsg
		UnmarshalJSON([]byte) error
	}
	switch label {
	case "EOSE":
		m = new(mocrelay.ServerEOSEMsg)
	case "EVENT":
		m = new(mocrelay.ServerEventMsg)
	case "NOTICE":
		m = new(mocrelay.ServerNoticeMsg)
	case "OK":
		m = new(mocrelay.ServerOKMsg)
	case "AUTH":
		m = new(mocrelay.ServerAuthMsg)
	case "COUNT":
		m = new(mocrelay.ServerCountMsg)
	case "CLOSED":
		m = new(mocrelay.ServerClosedMsg)
	default:
		return nil
	}
	if m.UnmarshalJSON(p) != nil {
		return nil
	}
	return m
}

// ---------------------------------------------------------------------------
// the individual checks, called directly

func c12Observe(bin bool, p []byte) (obs c12Class) {
	obs = c12Class{Text: !bin, UTF8: utf8.Valid(p), JSON: json.Valid(p), Verify: "na"}
	defer func() {
		if r := recover(); r != nil {
			obs.Parse, obs.Valid, obs.Verify = "", false, "panic"
		}
	}()
	msg, err := mocrelay.ParseClientMsg(p)
	if err != nil || msg == nil {
		return obs
	}
	obs.Parse = msg.ClientMsgLabel()
	obs.Valid = mocrelay.ValidClientMsg(msg)
	if em, ok := msg.(*mocrelay.ClientEventMsg); ok && em.Event != nil {
		obs.EvID = em.Event.ID
		ok, err := em.Event.Verify()
		switch {
		case err != nil:
			obs.Verify = "err"
		case ok:
			obs.Verify = "ok"
		default:
			obs.Verify = "bad"
		}
	}
	return obs
}

// ---------------------------------------------------------------------------
// one connection

var (
	c12StepWait  = c12EnvDur("C12_STEP_WAIT_MS", 1500)
	c12ShortWait = c12EnvDur("C12_SHORT_WAIT_MS", 200)
	c12FinalWait = c12EnvDur("C12_FINAL_WAIT_MS", 20000)
)

// Once three waits of a kind have timed out in this process the relay under test is evidently
// broken (each of those timeouts is already an observation the oracle rejects); the remaining
// connections then use the short wait, so that a run against a broken relay ends in minutes.
var c12StepTimeouts, c12FinalTimeouts atomic.Int32

func c12EnvDur(name string, def int) time.Duration {
	if v, err := strconv.Atoi(os.Getenv(name)); err == nil && v > 0 {
		return time.Duration(v) * time.Millisecond
	}
	return time.Duration(def) * time.Millisecond
}

type c12Rec struct {
	mu       sync.Mutex
	prog     chan struct{}
	keys     map[string][]int // rendering -> frames carrying that message, not yet received
	script   map[int][]c12Out // frame index -> scripted replies
	rendered map[string]int   // rendering of a scripted message -> serial
	recv     []c12Recv
	emitted  []int
	handled  int // messages completely handled by the handler (replies handed to the write loop)
	client   []c12Item
	others   int // client frames that are not scripted replies
	sentinel int
	gotSent  bool
	closed   bool // the reader has stopped: nothing more can arrive
	notes    []string
	readDone chan struct{}
}

func (r *c12Rec) notify() {
	select {
	case r.prog <- struct{}{}:
	default:
	}
}

func (r *c12Rec) wait(pred func() bool, d time.Duration) bool {
	t := time.NewTimer(d)
	defer t.Stop()
	for {
		r.mu.Lock()
		ok, closed := pred(), r.closed
		r.mu.Unlock()
		if ok {
			return true
		}
		if closed {
			return false
		}
		select {
		case <-r.prog:
		case <-t.C:
			return false
		}
	}
}

func (r *c12Rec) note(f string, a ...any) {
	r.mu.Lock()
	r.notes = append(r.notes, fmt.Sprintf(f, a...))
	r.mu.Unlock()
}

func (r *c12Rec) handler() mocrelay.Handler {
	return mocrelay.HandlerFunc(func(ctx context.Context, send chan<- mocrelay.ServerMsg, recv <-chan mocrelay.ClientMsg) error {
		for {
			select {
			case <-ctx.Done():
				return ctx.Err()
			case m, ok := <-recv:
				if !ok {
					return nil
				}
				key := c12RenderReceived(m)
				r.mu.Lock()
				idx, same := -1, false
				if l := r.keys[key]; len(l) > 0 {
					idx, same = l[0], true
					r.keys[key] = l[1:]
				}
				r.recv = append(r.recv, c12Recv{idx, same})
				outs := r.script[idx]
				r.mu.Unlock()
				for _, o := range outs {
					select {
					case send <- c12ServerMsg(o):
						r.mu.Lock()
						r.emitted = append(r.emitted, o.K)
						r.mu.Unlock()
					case <-ctx.Done():
						return ctx.Err()
					}
				}
				r.mu.Lock()
				r.handled++
				r.mu.Unlock()
				r.notify()
			}
		}
	})
}

func (r *c12Rec) classify(typ websocket.MessageType, p []byte) c12Item {
	if typ != websocket.MessageText {
		return c12Item{K: -1, O: "binary"}
	}
	m := c12Decode(p)
	if m == nil {
		return c12Item{K: -1, O: "undecodable", A: string(p)}
	}
	if k, ok := r.rendered[c12RenderServer(m)]; ok {
		return c12Item{K: k, O: "scripted"}
	}
	switch m := m.(type) {
	case *mocrelay.ServerNoticeMsg:
		return c12Item{K: -1, O: "notice", A: m.Message}
	case *mocrelay.ServerOKMsg:
		return c12Item{K: -1, O: "ok", A: m.EventID, Acc: m.Accepted}
	case *mocrelay.ServerClosedMsg:
		return c12Item{K: -1, O: "closed", A: m.SubscriptionID}
	}
	return c12Item{K: -1, O: "other", A: string(p)}
}

func c12Run(c *c12Case) {
	c.Recv, c.Emitted, c.Client, c.Notes, c.RanLockstep = []c12Recv{}, []int{}, []c12Item{}, []string{}, false
	rec := &c12Rec{prog: make(chan struct{}, 1), keys: map[string][]int{}, script: map[int][]c12Out{},
		rendered: map[string]int{}, sentinel: -1, readDone: make(chan struct{})}
	payloads := make([][]byte, len(c.Frames))
	for i := range c.Frames {
		f := &c.Frames[i]
		p, err := base64.StdEncoding.DecodeString(f.B64)
		if err != nil {
			panic(err)
		}
		payloads[i] = p
		f.Txt = strings.ToValidUTF8(string(p), "\ufffd")
		obs := c12Observe(f.Bin, p)
		f.Obs = &obs
		f.Exp.Text, f.Exp.UTF8, f.Exp.JSON = !f.Bin, utf8.Valid(p), json.Valid(p)
		if f.Key != "" {
			rec.keys[f.Key] = append(rec.keys[f.Key], i)
		}
		rec.script[i] = f.Out
		for _, o := range f.Out {
			rec.rendered[c12RenderServer(c12ServerMsg(o))] = o.K
			if i == len(c.Frames)-1 {
				rec.sentinel = o.K
			}
		}
	}

	if c.MaxLen <= 0 {
		c.MaxLen = 1 << 20
	}
	for i, p := range payloads {
		if int64(len(p)) > c.MaxLen {
			rec.notes = append(rec.notes, fmt.Sprintf("harness: frame %d is longer than the configured limit", i))
		}
	}
	opt := &mocrelay.RelayOption{
		SendTimeout:        30 * time.Second,
		RecvRateLimitRate:  1e9,
		RecvRateLimitBurst: 1e9,
		MaxMessageLength:   c.MaxLen,
		PingDuration:       time.Minute,
	}
	switch c.Opts {
	case 5:
		opt.SendTimeout = c12QuietSendTimeout
	case 1:
		opt.SendTimeout = 0
	case 2:
		opt.SendTimeout, opt.PingDuration = 0, 0
	case 3:
		opt.PingDuration = 0
	}
	if c.Opts == 4 {
		opt = nil
	}
	relay := mocrelay.NewRelay(rec.handler(), opt)
	if opt != nil {
		// the option value stays the caller's: what happens to it after NewRelay is no business of the relay
		*opt = mocrelay.RelayOption{MaxMessageLength: 1, RecvRateLimitRate: 0.001, RecvRateLimitBurst: 1}
	}
	var h http.Handler = relay
	if c.Mux {
		m := &mocrelay.ServeMux{Relay: relay}
		if c.MuxLog {
			m.Logger = slog.New(slog.NewTextHandler(io.Discard, nil))
		}
		h = m
	}
	srv := httptest.NewServer(h)
	defer srv.Close()

	ctx, cancel := context.WithTimeout(context.Background(), 10*time.Minute)
	defer cancel()
	conn, _, err := websocket.Dial(ctx, "ws"+strings.TrimPrefix(srv.URL, "http"), nil)
	if err != nil {
		rec.note("dial failed: %v", err)
		c.Notes = rec.notes
		return
	}
	conn.SetReadLimit(1 << 22)

	go func() { // the only reader; no per-read deadline
		defer close(rec.readDone)
		defer func() {
			rec.mu.Lock()
			rec.closed = true
			rec.mu.Unlock()
			rec.notify()
		}()
		for {
			typ, p, err := conn.Read(ctx)
			if err != nil {
				return
			}
			it := rec.classify(typ, p)
			// the end of the run is recognised whatever the frame type (the observation keeps the type)
			isSentinel := rec.sentinel >= 0 && rec.classify(websocket.MessageText, p).K == rec.sentinel
			rec.mu.Lock()
			rec.client = append(rec.client, it)
			if it.O != "scripted" {
				rec.others++
			}
			if isSentinel {
				rec.gotSent = true
			}
			rec.mu.Unlock()
			rec.notify()
		}
	}()

	timedOut := false
	for i, p := range payloads {
		rec.mu.Lock()
		h0, o0 := rec.handled, rec.others
		rec.mu.Unlock()
		typ := websocket.MessageText
		if c.Frames[i].Bin {
			typ = websocket.MessageBinary
		}
		if c.Opts == 5 && i == len(payloads)-1 {
			// a quiet period longer than the send timeout: a deadline is for one write, not for the connection
			time.Sleep(c12QuietSendTimeout + 300*time.Millisecond)
		}
		if err := c12Send(ctx, conn, typ, p, c.Frames[i].Frag); err != nil {
			rec.note("write of frame %d failed: %v", i, err)
			timedOut = true
			break
		}
		if c.Lockstep && i < len(payloads)-1 {
			d := c12StepWait
			if timedOut || c12StepTimeouts.Load() >= 3 {
				d = c12ShortWait
			}
			if !rec.wait(func() bool { return rec.handled > h0 || rec.others > o0 }, d) {
				timedOut = true
				rec.mu.Lock()
				closed := rec.closed
				rec.mu.Unlock()
				if closed {
					rec.note("connection closed by the relay after frame %d", i)
				} else {
					c12StepTimeouts.Add(1)
					rec.note("no effect of frame %d seen within %v", i, d)
				}
			}
		}
	}
	if rec.sentinel < 0 {
		rec.note("case has no sentinel")
		rec.wait(func() bool { return false }, c12ShortWait)
	} else {
		d := c12FinalWait
		if c12FinalTimeouts.Load() >= 3 {
			d = 10 * c12ShortWait
		}
		if !rec.wait(func() bool { return rec.gotSent }, d) {
			timedOut = true
			rec.mu.Lock()
			closed := rec.closed
			rec.mu.Unlock()
			if closed {
				rec.note("connection closed by the relay before the sentinel")
			} else {
				rec.note("sentinel not seen within %v", d)
				c12FinalTimeouts.Add(1)
			}
		}
	}
	conn.Close(websocket.StatusNormalClosure, "")
	select {
	case <-rec.readDone:
	case <-time.After(10 * time.Second):
		rec.note("reader did not stop")
	}
	cancel()
	waited := make(chan struct{})
	go func() { relay.Wait(); close(waited) }()
	select {
	case <-waited:
	case <-time.After(10 * time.Second):
		rec.note("relay session did not end")
	}

	rec.mu.Lock()
	defer rec.mu.Unlock()
	c.Recv = append(c.Recv, rec.recv...)
	c.Emitted = append(c.Emitted, rec.emitted...)
	c.Client = append(c.Client, rec.client...)
	c.Notes = append(c.Notes, rec.notes...)
	c.RanLockstep = c.Lockstep && !timedOut
}

// c12Send writes one message: in one frame, or cut at the given offsets into fragments
// (coder/websocket's message writer emits one fin=0 data frame per Write and an empty fin=1
// CONTINUATION frame on Close).
func c12Send(ctx context.Context, conn *websocket.Conn, typ websocket.MessageType, p []byte, frag []int) error {
	if len(frag) == 0 {
		return conn.Write(ctx, typ, p)
	}
	w, err := conn.Writer(ctx, typ)
	if err != nil {
		return err
	}
	prev := 0
	for _, cut := range frag {
		if cut < prev {
			cut = prev
		}
		if cut > len(p) {
			cut = len(p)
		}
		if _, err := w.Write(p[prev:cut]); err != nil {
			w.Close()
			return err
		}
		prev = cut
	}
	if _, err := w.Write(p[prev:]); err != nil {
		w.Close()
		return err
	}
	return w.Close()
}

// ---------------------------------------------------------------------------
// generator

type c12Gen struct {
	r      *common.Rand
	serial int
	sent   []*common.JEvent // genuine events already sent in text EVENT frames of this case
	big    bool             // now and then a valid REQ of 40..60 KB
}

func c12Hex(seed string) string {
	h := sha256.Sum256([]byte(seed))
	return hex.EncodeToString(h[:])
}

var c12Words = []string{"hello", "nostr", "relay", "こんにちは", "мир", "😀 ok", "a\"b", "back\\slash", "line\nbreak", "tab\there", "é", "𝄞 clef", "null", "[]", "{\"x\":1}"}

func (g *c12Gen) word() string { return common.Pick(g.r, c12Words) }

// c12Odd: Unicode text that is legal in any JSON string (subscription ids, notices, challenges
// are arbitrary strings chosen by clients and handlers) but that quoting conventions other than
// JSON's treat specially: C0 controls with and without a short escape, DEL, C1 controls, format and
// other non-printing characters of the BMP, non-characters, line separators, non-printing and
// private-use characters beyond the BMP.
var c12Odd = []string{"\x00", "\x01", "\x07", "\x08", "\x0b", "\x0c", "\x1b", "\x1f", "\x7f", "\u0080", "\u009f", "\u00ad",
	"\u200b", "\u202e", "\u2028", "\u2029", "\ufeff", "\ufffd", "\ufffe", "\U0001f600", "\U000e0001", "\U000e007f", "\U000f0000", "\U0010ffff"}

func (g *c12Gen) odd() string {
	s := common.Pick(g.r, c12Odd)
	switch g.r.Intn(4) {
	case 0:
		s = "a" + s + "b"
	case 1:
		s += common.Pick(g.r, c12Odd)
	}
	return s
}

// oddly: with probability pct%, s with such text appended
func (g *c12Gen) oddly(s string, pct int) string {
	if g.r.Chance(pct) {
		return s + " " + g.odd()
	}
	return s
}

func (g *c12Gen) subID(i int) string {
	s := "s" + strconv.Itoa(i)
	if g.r.Chance(40) {
		s += "-" + common.Pick(g.r, []string{"sub", "フィード", "x y", "q\"uote", "ü"})
	}
	return g.oddly(s, 20)
}

func (g *c12Gen) filter() c12RFilter {
	var f c12RFilter
	r := g.r
	hexes := func(tag string) *[]string {
		n := r.Intn(3)
		if r.Chance(80) && n == 0 {
			n = 1
		}
		l := []string{}
		for j := 0; j < n; j++ {
			if tag == "pk" && r.Chance(50) {
				l = append(l, common.Pick(r, c12Keys).pk)
			} else {
				l = append(l, c12Hex(tag+strconv.Itoa(r.Intn(5))))
			}
		}
		return &l
	}
	if r.Chance(35) {
		f.IDs = hexes("id")
	}
	if r.Chance(35) {
		f.Authors = hexes("pk")
	}
	if r.Chance(45) {
		ks := []int64{}
		for j := r.Intn(3); j >= 0; j-- {
			ks = append(ks, common.Pick(r, []int64{0, 1, 3, 5, 7, 1984, 9735, 10002, 22242, 30023, 65535}))
		}
		if r.Chance(10) {
			ks = []int64{}
		}
		f.Kinds = &ks
	}
	if r.Chance(35) {
		ts := []c12RTag{}
		names := []string{"e", "p", "t", "d", "Z", "r", "a"}
		n := 1 + r.Intn(2)
		for j := 0; j < n; j++ {
			k := r.Intn(len(names))
			nm := names[k]
			names = append(names[:k], names[k+1:]...)
			var vs []string
			switch nm {
			case "e":
				vs = *hexes("id")
			case "p":
				vs = *hexes("pk")
			case "a":
				// addresses kind:pubkey:d with kinds over the whole range 0..65535 (both halves of 16 bits)
				vs = []string{}
				for m := r.Intn(2); m >= 0; m-- {
					k := common.Pick(r, []int64{0, 3, 10002, 30023, 31990, 32767, 32768, 34550, 39999, 65535})
					vs = append(vs, strconv.FormatInt(k, 10)+":"+common.Pick(r, c12Keys).pk+":"+g.word())
				}
			default:
				vs = []string{}
				for m := r.Intn(3); m >= 0; m-- {
					vs = append(vs, g.word())
				}
			}
			ts = append(ts, c12RTag{nm, vs})
		}
		f.Tags = &ts
	}
	if r.Chance(30) {
		f.Since = common.Ptr(int64(r.Intn(1000)))
	}
	if r.Chance(30) {
		f.Until = common.Ptr(int64(1000 + r.Intn(1700000000)))
	}
	if r.Chance(40) {
		f.Limit = common.Ptr(int64(r.Intn(500)))
	}
	return f
}

// c12FilterJSON writes a filter object; numbers and arrays as given.
func c12FilterJSON(f c12RFilter) string {
	parts := []string{}
	js := func(v any) string { return c12JSON(v) }
	if f.IDs != nil {
		parts = append(parts, `"ids":`+js(*f.IDs))
	}
	if f.Authors != nil {
		parts = append(parts, `"authors":`+js(*f.Authors))
	}
	if f.Kinds != nil {
		parts = append(parts, `"kinds":`+js(*f.Kinds))
	}
	if f.Tags != nil {
		for _, t := range *f.Tags {
			parts = append(parts, js("#"+t.N)+":"+js(t.V))
		}
	}
	if f.Since != nil {
		parts = append(parts, `"since":`+js(*f.Since))
	}
	if f.Until != nil {
		parts = append(parts, `"until":`+js(*f.Until))
	}
	if f.Limit != nil {
		parts = append(parts, `"limit":`+js(*f.Limit))
	}
	return "{" + strings.Join(parts, ",") + "}"
}

func c12JSON(v any) string {
	var buf bytes.Buffer
	enc := json.NewEncoder(&buf)
	enc.SetEscapeHTML(false)
	if err := enc.Encode(v); err != nil {
		panic(err)
	}
	return strings.TrimSpace(buf.String())
}

func c12EventJSON(e *common.JEvent) string {
	return `{"id":` + c12JSON(e.ID) + `,"pubkey":` + c12JSON(e.PK) + `,"created_at":` + strconv.FormatInt(e.TS, 10) +
		`,"kind":` + strconv.FormatInt(e.Kind, 10) + `,"tags":` + c12JSON(e.Tags) + `,"content":` + c12JSON(e.Content) +
		`,"sig":` + c12JSON(e.Sig) + `}`
}

func (g *c12Gen) event(i int, kind int64) *common.JEvent {
	r := g.r
	e := &common.JEvent{TS: int64(1600000000 + r.Intn(100000000)), Kind: kind, Tags: [][]string{},
		Content: g.word() + " #" + strconv.Itoa(i)}
	for n := r.Intn(3); n > 0; n-- {
		switch r.Intn(4) {
		case 0:
			e.Tags = append(e.Tags, []string{"e", c12Hex("id" + strconv.Itoa(r.Intn(5)))})
		case 1:
			e.Tags = append(e.Tags, []string{"p", common.Pick(r, c12Keys).pk, "wss://r.example"})
		case 2:
			e.Tags = append(e.Tags, []string{"t", g.word()})
		default:
			e.Tags = append(e.Tags, []string{"d"})
		}
	}
	c12Sign(common.Pick(r, c12Keys), e)
	return e
}

func c12EventKinds() []int64 { return []int64{0, 1, 3, 5, 7, 1984, 10002, 20001, 30023, 65535} }

type c12Built struct {
	cls     string
	bin     bool
	payload []byte
	parse   string
	valid   bool
	verify  string
	evid    string
	key     string
	sub     *string
	ev      *common.JEvent
}

func c12MsgJSON(label string, rest ...string) string {
	return `["` + label + `"` + func() string {
		if len(rest) == 0 {
			return ""
		}
		return "," + strings.Join(rest, ",")
	}() + `]`
}

func (g *c12Gen) reqLike(i int, label string) c12Built {
	sub := g.subID(i)
	n := 1 + g.r.Intn(3)
	m := c12RMsg{Label: label, Sub: sub}
	parts := []string{c12JSON(sub)}
	for j := 0; j < n; j++ {
		f := g.filter()
		m.Filters = append(m.Filters, f)
		parts = append(parts, c12FilterJSON(f))
	}
	return c12Built{cls: strings.ToLower(label), payload: []byte(c12MsgJSON(label, parts...)), parse: label, valid: true,
		verify: "na", key: c12RenderMsg(m), sub: &sub}
}

func (g *c12Gen) closeMsg(i int) c12Built {
	sub := g.subID(i)
	return c12Built{cls: "close", payload: []byte(c12MsgJSON("CLOSE", c12JSON(sub))), parse: "CLOSE", valid: true, verify: "na",
		key: c12RenderMsg(c12RMsg{Label: "CLOSE", Sub: sub}), sub: &sub}
}

func (g *c12Gen) eventMsg(cls, label string, e *common.JEvent, valid bool, verify string) c12Built {
	b := c12Built{cls: cls, payload: []byte(c12MsgJSON(label, c12EventJSON(e))), parse: label, valid: valid, verify: verify,
		key: c12RenderMsg(c12RMsg{Label: label, Event: e}), ev: e}
	if label == "EVENT" {
		b.evid = e.ID
	} else {
		b.verify = "na"
	}
	return b
}

// valid draws a frame that must be forwarded.
func (g *c12Gen) validFrame(i int) c12Built {
	r := g.r
	if len(g.sent) > 0 && r.Chance(8) {
		// the same genuine event again: a well-formed valid authentic message, to be forwarded again
		e := *common.Pick(r, g.sent)
		return g.eventMsg("event_again", "EVENT", &e, true, "ok")
	}
	if g.big && r.Chance(25) {
		// a valid REQ of 40..60 KB: one filter with 600..880 ids (well inside the default limit of 100000 bytes)
		sub := g.subID(i)
		ids := make([]string, 600+r.Intn(281))
		for j := range ids {
			ids[j] = c12Hex("big" + strconv.Itoa(j))
		}
		f := c12RFilter{IDs: &ids}
		m := c12RMsg{Label: "REQ", Sub: sub, Filters: []c12RFilter{f}}
		return c12Built{cls: "req_big", payload: []byte(c12MsgJSON("REQ", c12JSON(sub), c12FilterJSON(f))), parse: "REQ", valid: true,
			verify: "na", key: c12RenderMsg(m), sub: &sub}
	}
	switch r.Intn(10) {
	case 0, 1:
		return g.reqLike(i, "REQ")
	case 2:
		return g.reqLike(i, "COUNT")
	case 3:
		return g.closeMsg(i)
	case 4:
		return g.eventMsg("auth", "AUTH", g.event(i, 22242), true, "na")
	case 5:
		// AUTH is not an EVENT message: its event is not checked for authenticity
		e := g.event(i, 22242)
		e.Content += " (altered)"
		return g.eventMsg("auth_forged", "AUTH", e, true, "na")
	case 6:
		// insignificant white space inside and after the message
		b := g.closeMsg(i)
		s := string(b.payload)
		s = strings.Replace(s, `["CLOSE",`, "[ \n\"CLOSE\" ,\t", 1)
		s = strings.TrimSuffix(s, "]") + " ] \r\n"
		b.payload, b.cls = []byte(s), "ws_inner"
		return b
	default:
		return g.eventMsg("event", "EVENT", g.event(i, common.Pick(r, c12EventKinds())), true, "ok")
	}
}

func c12FlipHex(s string, pos int) string {
	b := []byte(s)
	pos %= len(b)
	if b[pos] == '0' {
		b[pos] = '1'
	} else {
		b[pos] = '0'
	}
	return string(b)
}

// rejectFrame draws a frame that must be answered with exactly one rejection.
func (g *c12Gen) rejectFrame(i int) c12Built {
	r := g.r
	none := func(cls, s string) c12Built { return c12Built{cls: cls, payload: []byte(s), verify: "na"} }
	switch r.Intn(9) {
	case 0: // a perfectly good message in a binary frame
		b := g.validFrame(i)
		if b.cls == "event_again" { // keep the attribution of received messages to frames unambiguous
			b = g.closeMsg(i)
		}
		b.cls, b.bin = "binary", true
		return b
	case 1: // invalid UTF-8 in a text frame
		if r.Bool() {
			sub := "s" + strconv.Itoa(i) + "\xff\xfe"
			return none("bad_utf8", `["CLOSE","`+sub+`"]`)
		}
		return none("bad_utf8", common.Pick(r, []string{"\xff", "\xc3\x28", "[\"CLOSE\",\"\xed\xa0\x80\"]", "\xf8\x88\x80\x80\x80"}))
	case 2:
		return none("not_json", common.Pick(r, []string{"", "hello", `["CLOSE","x"`, "{", `["CLOSE","x"] x`, `['CLOSE','x']`,
			`["CLOSE",]`, "[\"CLOSE\",\"a\nb\"]", `["REQ","s",{"limit":01}]`, "\x00", `["CLOSE","x"]]`}))
	case 3:
		return none("not_msg", common.Pick(r, []string{"{}", "[]", `["FOO"]`, `["FOO","x"]`, `"EVENT"`, "123", "null", "true",
			"[1,2]", `[["EVENT"]]`, `["event",{}]`, `["NOTICE","x"]`, `["EOSE","x"]`, `["OK","x",true,""]`, `["CLOSED","x",""]`,
			`{"EVENT":1}`, `["",""]`, `["EVENTS","x"]`, `["REQS","s",{}]`}))
	case 4:
		e := g.event(i, 1)
		ej := c12EventJSON(e)
		return none("ill_typed", common.Pick(r, []string{`["EVENT"]`, `["EVENT",1]`, `["EVENT","x"]`, `["EVENT",[]]`, `["EVENT",{}]`,
			`["CLOSE"]`, `["CLOSE",1]`, `["CLOSE","a","b"]`, `["REQ"]`, `["REQ","s"]`, `["REQ",1,{}]`,
			`["REQ","s",{"ids":"x"}]`, `["REQ","s",{"ids":[1]}]`, `["REQ","s",{"foo":1}]`, `["REQ","s",{"limit":1.5}]`,
			`["REQ","s",{"limit":"1"}]`, `["REQ","s",[]]`, `["REQ","s",{"#ee":["x"]}]`, `["REQ","s",{"kinds":["1"]}]`,
			`["REQ","s",{"since":1e400}]`, `["COUNT"]`, `["COUNT","s"]`, `["COUNT","s",1]`, `["AUTH"]`, `["AUTH","challenge"]`,
			`["AUTH",{}]`,
			`["EVENT",` + ej + `,1]`,
			`["EVENT",` + strings.Replace(ej, `"kind":1,`, ``, 1) + `]`,
			`["EVENT",` + strings.Replace(ej, `"kind":1,`, `"kind":"1",`, 1) + `]`,
			`["EVENT",` + strings.Replace(ej, `"kind":1,`, `"kind":1.5,`, 1) + `]`,
			`["EVENT",` + strings.Replace(ej, `"kind":1,`, `"kind":1,"extra":1,`, 1) + `]`,
			`["EVENT",` + strings.Replace(ej, `"tags":`, `"tags":[[1]],"x":`, 1) + `]`,
			`["EVENT",` + strings.Replace(ej, `"content":`, `"content":1,"x":`, 1) + `]`,
			`["AUTH",` + strings.Replace(ej, `"sig":`, `"gis":`, 1) + `]`,
		}))
	case 5: // a field that breaks a NIP-01 constraint (kinds out of range are a class of their own)
		return g.badField(i)
	case 6, 7: // forged or altered events
		return g.forged(i)
	default: // Verify cannot even decode: signature bytes that are not a BIP-340 signature
		e := g.event(i, 1)
		if r.Bool() {
			e.Sig = strings.Repeat("f", 128)
		} else { // a well-formed pubkey that is not the x coordinate of a curve point; the id matches
			e.PK = c12NoPoint
			h := sha256.Sum256(c12Canonical(e))
			e.ID = hex.EncodeToString(h[:])
		}
		return g.eventMsg("verify_err", "EVENT", e, true, "bad")
	}
}

func (g *c12Gen) badField(i int) c12Built {
	r := g.r
	up := func(s string) string {
		u := strings.ToUpper(s)
		if u == s { // all digits: force a letter
			u = "A" + s[1:]
		}
		return u
	}
	if r.Chance(55) {
		e := g.event(i, common.Pick(r, c12EventKinds()))
		label := "EVENT"
		if r.Chance(20) {
			label = "AUTH"
		}
		switch r.Intn(9) {
		case 0:
			e.ID = up(e.ID)
		case 1:
			e.ID = e.ID[:63]
		case 2:
			e.ID = e.ID + "0"
		case 3:
			e.PK = up(e.PK)
		case 4:
			e.PK = e.PK[:62]
		case 5:
			e.Sig = up(e.Sig)
		case 6:
			e.Sig = e.Sig[:127]
		case 7:
			e.Tags = append(e.Tags, []string{})
			c12ReSign(e)
		default:
			e.Tags = append([][]string{{"", "x"}}, e.Tags...)
			c12ReSign(e)
		}
		return g.eventMsg("bad_field", label, e, false, "bad")
	}
	label := "REQ"
	if r.Chance(30) {
		label = "COUNT"
	}
	sub := g.subID(i)
	strs := func(xs ...string) *[]string { return &xs }
	bad := common.Pick(r, []c12RFilter{
		{IDs: strs(strings.ToUpper(c12Hex("A")))},
		{IDs: strs(c12Hex("a")[:63])},
		{IDs: strs(c12Hex("a"), "xyz")},
		{Authors: strs(c12Hex("a") + "0")},
		{Authors: strs("")},
		{Tags: &[]c12RTag{{"e", []string{"not-hex"}}}},
		{Tags: &[]c12RTag{{"p", []string{strings.ToUpper(c12Hex("b"))}}}},
		{Since: common.Ptr(int64(-1))},
		{Until: common.Ptr(int64(-5))},
		{Limit: common.Ptr(int64(-1))},
	})
	fs := []c12RFilter{bad}
	if r.Bool() {
		fs = []c12RFilter{g.filter(), bad}
	}
	return c12ReqOf("bad_field", label, sub, fs, false)
}

// c12ReqOf builds a REQ/COUNT frame from structured filters.
func c12ReqOf(cls, label, sub string, fs []c12RFilter, valid bool) c12Built {
	parts := []string{c12JSON(sub)}
	for _, f := range fs {
		parts = append(parts, c12FilterJSON(f))
	}
	return c12Built{cls: cls, payload: []byte(c12MsgJSON(label, parts...)), parse: label, valid: valid, verify: "na",
		key: c12RenderMsg(c12RMsg{Label: label, Sub: sub, Filters: fs}), sub: &sub}
}

// c12ReSign signs e again with the key its pubkey belongs to.
func c12ReSign(e *common.JEvent) {
	for _, k := range c12Keys {
		if k.pk == e.PK {
			c12Sign(k, e)
			return
		}
	}
	panic("c12: unknown key")
}

func (g *c12Gen) forged(i int) c12Built {
	r := g.r
	if len(g.sent) > 0 && r.Chance(30) {
		// id, pubkey and signature of an event the relay has already accepted on this connection,
		// one signed field altered
		e := *common.Pick(r, g.sent)
		switch r.Intn(3) {
		case 0:
			e.Content += " (altered #" + strconv.Itoa(i) + ")"
		case 1:
			e.TS += int64(1 + i)
		default:
			e.Tags = append(append([][]string{}, e.Tags...), []string{"t", "altered" + strconv.Itoa(i)})
		}
		return g.eventMsg("forged_seen_id", "EVENT", &e, true, "bad")
	}
	e := g.event(i, common.Pick(r, c12EventKinds()))
	switch r.Intn(9) {
	case 0:
		e.Content += "!"
	case 1:
		e.TS++
	case 2:
		if e.Kind == 1 {
			e.Kind = 2
		} else {
			e.Kind = 1
		}
	case 3:
		e.Tags = append(e.Tags, []string{"t", "added"})
	case 4: // somebody else's name on it
		for _, k := range c12Keys {
			if k.pk != e.PK {
				e.PK = k.pk
				break
			}
		}
	case 5:
		e.ID = c12FlipHex(e.ID, r.Intn(64))
	case 6: // the signature of another message by the same author
		o := g.event(i, e.Kind)
		o.Content += " other"
		for _, k := range c12Keys {
			if k.pk == e.PK {
				c12Sign(k, o)
			}
		}
		e.Sig = o.Sig
	case 7:
		e.Sig = c12FlipHex(e.Sig, r.Intn(128))
	default: // id and content of an altered event, signature of the original
		e.Content += "?"
		h := sha256.Sum256(c12Canonical(e))
		e.ID = hex.EncodeToString(h[:])
	}
	return g.eventMsg("forged", "EVENT", e, true, "bad")
}

// defectFrame: classes that hit a defect known on the pinned tree; kept apart
// so that the finding is reported under its own name.
func (g *c12Gen) defectFrame(i int, which int) c12Built {
	r := g.r
	switch which {
	case 0: // F3: authentic events with characters that json.Marshal escapes
		e := g.event(i, 1)
		ch := common.Pick(r, []string{"<", ">", "&", "\u2028", "\u2029"})
		if r.Chance(25) {
			e.Tags = append(e.Tags, []string{"t", "a" + ch + "b"})
		} else {
			e.Content = "a" + ch + "b #" + strconv.Itoa(i)
		}
		c12ReSign(e)
		return g.eventMsg("f3_html_escape", "EVENT", e, true, "ok")
	case 1: // F10: white space before the opening bracket (insignificant in JSON)
		b := g.validFrame(i)
		b.payload = append([]byte(common.Pick(r, []string{" ", "\n", "\t", "\r\n", "  "})), b.payload...)
		b.cls = "f10_leading_space"
		return b
	default: // F1: kinds outside 0..65535 are invalid
		k := common.Pick(r, []int64{65536, 70000, -1, -5, 1 << 40})
		if r.Bool() {
			e := g.event(i, k)
			return g.eventMsg("f1_kind_range", "EVENT", e, false, "ok")
		}
		return c12ReqOf("f1_kind_range", "REQ", g.subID(i), []c12RFilter{{Kinds: &[]int64{1, k}}}, false)
	}
}

func (g *c12Gen) outs(final bool, maxLen int64) []c12Out {
	r := g.r
	if final {
		g.serial++
		return []c12Out{{K: g.serial, T: "NOTICE", A: "k" + strconv.Itoa(g.serial) + " sentinel"}}
	}
	if r.Chance(45) {
		return []c12Out{}
	}
	var os []c12Out
	for n := 1 + r.Intn(3); n > 0; n-- {
		g.serial++
		k := g.serial
		tok := "k" + strconv.Itoa(k)
		o := c12Out{K: k}
		switch r.Intn(7) {
		case 0:
			o.T, o.A = "EOSE", g.oddly(tok+" "+g.word(), 30)
		case 1:
			e := g.event(1000+k, common.Pick(r, c12EventKinds()))
			if r.Chance(30) {
				e.Content = "<b>&amp;</b> \u2028 " + tok // what the relay stores may contain anything
			}
			o.T, o.A, o.Ev = "EVENT", g.oddly(tok+" "+g.word(), 40), e
		case 2:
			o.T, o.A = "NOTICE", g.oddly(tok+": "+g.word()+" 通知 😀", 30)
			if maxLen < 1<<16 && r.Chance(50) {
				// ["NOTICE","<text>"] of a length at, just around, or well beyond the limit for client frames
				want := int(maxLen) + common.Pick(r, []int{-1, 0, 1, 2, 200})
				if pad := want - len(c12JSON([]string{"NOTICE", o.A})); pad > 0 {
					o.A += strings.Repeat("x", pad)
				}
			}
		case 3:
			o.T, o.A, o.Acc = "OK", c12Hex(tok), r.Bool()
			o.P = common.Pick(r, []string{"", "duplicate: ", "blocked: ", "invalid: ", "error: ", "pow: ", "rate-limited: "})
			o.B = g.oddly(common.Pick(r, []string{"", "すでにあります", g.word()}), 25)
		case 4:
			o.T, o.A = "AUTH", g.oddly(tok+" challenge "+g.word(), 30)
		case 5:
			o.T, o.A, o.N = "COUNT", g.oddly(tok+" "+g.word(), 30), common.Pick(r, []uint64{0, 1, 42, 1 << 40, 1<<64 - 1})
			if r.Chance(50) {
				o.Approx = common.Ptr(r.Bool())
			}
		default:
			o.T, o.A = "CLOSED", g.oddly(tok+" "+g.word(), 30)
			o.P = common.Pick(r, []string{"", "error: ", "blocked: ", "rate-limited: "})
			o.B = g.oddly(common.Pick(r, []string{"", "閉じました", g.word()}), 25)
		}
		os = append(os, o)
	}
	return os
}

func c12FrameOf(b c12Built, outs []c12Out) c12Frame {
	f := c12Frame{Cls: b.cls, Bin: b.bin, B64: base64.StdEncoding.EncodeToString(b.payload),
		Exp: c12Class{Text: !b.bin, UTF8: utf8.Valid(b.payload), JSON: json.Valid(b.payload), Parse: b.parse, Valid: b.valid,
			Verify: b.verify, EvID: b.evid},
		Key: b.key, Sub: b.sub, Out: outs}
	if f.Exp.Verify == "" {
		f.Exp.Verify = "na"
	}
	return f
}

const c12QuietSendTimeout = 600 * time.Millisecond

func c12Generate(r *common.Rand, idx int) c12Case {
	g := &c12Gen{r: r}
	c := c12Case{Lockstep: r.Chance(60), Mux: r.Bool()}
	if r.Chance(30) {
		c.Opts = 1 + r.Intn(4)
	} else if r.Chance(6) {
		c.Opts = 5
	}
	c.MuxLog = c.Mux && r.Bool()
	g.big = c.Opts == 4 || r.Chance(4)
	n := 3 + r.Intn(12)
	if c.Opts == 4 && n > 9 {
		n = 9 // the default receive rate limit (10/s, burst 10) would only slow the case down
	}
	defectAt, which := -1, 0
	if r.Chance(9) {
		defectAt, which = r.Intn(n), r.Intn(3)
	}
	if os.Getenv("C12_NO_DEFECT_CLASSES") != "" { // for mutation testing while the defects are not yet listed
		defectAt = -1
	}
	var built []c12Built
	for i := 0; i < n; i++ {
		var b c12Built
		switch {
		case i == defectAt:
			b = g.defectFrame(i, which)
		case r.Chance(50):
			b = g.validFrame(i)
		default:
			b = g.rejectFrame(i)
		}
		if b.cls == "event" && !b.bin && b.ev != nil {
			g.sent = append(g.sent, b.ev)
		}
		built = append(built, b)
		c.Frames = append(c.Frames, c12FrameOf(b, nil))
	}
	// the connection must still be usable: a final valid message whose reply is the sentinel
	var last c12Built
	if r.Bool() {
		last = g.closeMsg(n)
	} else {
		last = g.reqLike(n, "REQ")
	}
	last.cls = "final_" + last.cls
	built = append(built, last)
	c.Frames = append(c.Frames, c12FrameOf(last, nil))
	// the size limit bounds the frames the CLIENT sends, not what the handler emits: in 40% of the cases the limit is
	// just above the longest client frame and some handler output is at or beyond it
	c.MaxLen = 1 << 20
	longest := 0
	for _, b := range built {
		if len(b.payload) > longest {
			longest = len(b.payload)
		}
	}
	if r.Chance(40) {
		c.MaxLen = int64(longest + 16 + r.Intn(48))
	}
	if c.Opts == 4 {
		c.MaxLen = 100000 // what NewDefaultRelayOption says
	}
	for i := range c.Frames {
		c.Frames[i].Out = g.outs(i == len(c.Frames)-1, c.MaxLen)
	}
	// a quarter of the messages (of every class, the final one included) are sent fragmented: 1..3 cuts
	// anywhere in the payload (also at its ends: empty fragments; also inside a multi-byte character)
	for i := range c.Frames {
		if r.Chance(25) {
			n := len(built[i].payload)
			var cuts []int
			for k := 1 + r.Intn(3); k > 0; k-- {
				cuts = append(cuts, r.Intn(n+1))
			}
			sort.Ints(cuts)
			c.Frames[i].Frag = cuts
		}
	}
	// sanity of the generator itself (a failure here is a harness bug, not a finding)
	for i, f := range c.Frames {
		p, _ := base64.StdEncoding.DecodeString(f.B64)
		want := map[string][2]bool{"bad_utf8": {false, false}, "not_json": {true, false}}
		if w, ok := want[f.Cls]; ok && (f.Exp.UTF8 != w[0] || (w[0] && f.Exp.JSON != w[1])) {
			panic(fmt.Sprintf("c12 generator: frame %d of class %s is utf8=%v json=%v: %q", i, f.Cls, f.Exp.UTF8, f.Exp.JSON, p))
		}
		if f.Exp.Parse != "" && !(f.Exp.UTF8 && f.Exp.JSON) {
			panic(fmt.Sprintf("c12 generator: frame %d of class %s meant to parse is not JSON: %q", i, f.Cls, p))
		}
	}
	_ = idx
	return c
}

// c12CorpusCases: the minimal frame of each known-defect class followed by the
// final CLOSE (written to corpus/C12/*.jsonl with C12_CORPUS=1).
func c12CorpusCases() []c12Case {
	g := &c12Gen{r: common.NewRand(12)}
	mk := func(b c12Built) c12Case {
		last := g.closeMsg(1)
		last.cls = "final_close"
		return c12Case{Lockstep: true, Frames: []c12Frame{c12FrameOf(b, []c12Out{}), c12FrameOf(last, g.outs(true, 1<<20))}}
	}
	ev := func(kind int64, content string) *common.JEvent {
		e := &common.JEvent{TS: 1700000000, Kind: kind, Tags: [][]string{}, Content: content}
		c12Sign(c12Keys[0], e)
		return e
	}
	sub := "s0"
	var cs []c12Case
	// F1: kinds outside 0..65535
	cs = append(cs, mk(c12ReqOf("f1_kind_range", "REQ", sub, []c12RFilter{{Kinds: &[]int64{70000}}}, false)))
	cs = append(cs, mk(g.eventMsg("f1_kind_range", "EVENT", ev(65536, ""), false, "ok")))
	// F3: authentic events whose content has a character json.Marshal escapes
	for _, ch := range []string{"<", ">", "&", "\u2028", "\u2029"} {
		cs = append(cs, mk(g.eventMsg("f3_html_escape", "EVENT", ev(1, ch), true, "ok")))
	}
	// F10: white space before the opening bracket
	cs = append(cs, mk(c12Built{cls: "f10_leading_space", payload: []byte(` ["CLOSE","s0"]`), parse: "CLOSE", valid: true, verify: "na",
		key: c12RenderMsg(c12RMsg{Label: "CLOSE", Sub: sub}), sub: &sub}))
	// (corpus/C12/fragmented.jsonl) valid messages sent as several WebSocket fragments: two data frames and the empty
	// final frame; a cut inside a multi-byte character; an empty first fragment; a rejected frame sent fragmented
	frag := func(b c12Built, cuts ...int) c12Case {
		c := mk(b)
		c.Frames[0].Frag = cuts
		return c
	}
	cs = append(cs, frag(c12ReqOf("req", "REQ", sub, []c12RFilter{{Kinds: &[]int64{1}}}, true), 12))
	jsub := "フィード"
	cs = append(cs, frag(c12Built{cls: "close", payload: []byte(c12MsgJSON("CLOSE", c12JSON(jsub))), parse: "CLOSE", valid: true, verify: "na",
		key: c12RenderMsg(c12RMsg{Label: "CLOSE", Sub: jsub}), sub: &jsub}, 0, 11, 13))
	cs = append(cs, frag(g.eventMsg("event", "EVENT", ev(1, "fragmented"), true, "ok"), 1, 200))
	cs = append(cs, frag(c12Built{cls: "not_json", payload: []byte(`["CLOSE","x"`), verify: "na"}, 5))
	// (corpus/C12/unusual_ids.jsonl) subscription ids with characters that are legal in JSON strings but unusual: the client's
	// REQ is forwarded, and the handler's EVENT/EOSE/CLOSED for that id must arrive
	for _, id := range []string{"feed\x01home", "a\x07\x0b\x1fb", "del\x7f", "tag\U000e0001", "nul\x00 \u0080\u200b\ufeff\ufffe\U0010ffff"} {
		id := id
		c := mk(c12ReqOf("req", "REQ", id, []c12RFilter{{Kinds: &[]int64{1}}}, true))
		g.serial += 3
		c.Frames[0].Out = []c12Out{
			{K: g.serial - 2, T: "EVENT", A: id, Ev: ev(1, "stored "+strconv.Itoa(g.serial))},
			{K: g.serial - 1, T: "EOSE", A: id},
			{K: g.serial, T: "CLOSED", A: id, P: "error: ", B: id},
		}
		cs = append(cs, c)
	}
	return cs
}

// ---------------------------------------------------------------------------

func c12Main(seed uint64, n int, out *common.Out, replay string) {
	var cases []c12Case
	if replay != "" {
		for _, raw := range common.ReadLines(replay) {
			var c c12Case
			if err := json.Unmarshal(raw, &c); err != nil {
				common.Fatalf("c12: bad replay line: %v", err)
			}
			cases = append(cases, c)
		}
	} else if os.Getenv("C12_CORPUS") != "" {
		cases = c12CorpusCases()
	} else {
		root := common.NewRand(seed)
		for i := 0; i < n; i++ {
			cases = append(cases, c12Generate(root.Fork(uint64(i)), i))
		}
	}
	par := runtime.NumCPU()
	if v, err := strconv.Atoi(os.Getenv("C12_PARALLEL")); err == nil && v > 0 {
		par = v
	}
	if par > 16 {
		par = 16
	}
	sem := make(chan struct{}, par)
	var wg sync.WaitGroup
	for i := range cases {
		wg.Add(1)
		sem <- struct{}{}
		go func(c *c12Case) {
			defer wg.Done()
			defer func() { <-sem }()
			defer func() {
				if r := recover(); r != nil {
					c.Notes = append(c.Notes, fmt.Sprintf("harness panic: %v", r))
				}
			}()
			c12Run(c)
		}(&cases[i])
	}
	wg.Wait()
	for i := range cases {
		out.Emit(&cases[i])
	}
}
