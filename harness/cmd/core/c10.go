package main

// C10: wire codec.  Three streams:
//   dec/parse  JSON values generated per target type (mostly right shape, with
//              point mutations, duplicates, reordered members, wrong types,
//              boundary numbers), printed to text with random white space and
//              escapes, fed to json.Unmarshal on the typed target or to
//              ParseClientMsg; on success the value is marshalled again and
//              decoded again.
//   enc        Go values built directly (well-formed and not: nil slices, nil
//              pointers, un-normalised reasons), Marshal then Unmarshal.
//   raw        malformed texts (random bytes, truncations, byte mutations,
//              nesting depth up to 100000, 400-digit numbers, invalid UTF-8)
//              under recover(); texts that still are valid shallow JSON are
//              turned into dec/parse cases with their value, the others only
//              record panic / accepted.
//   seq        a short history of RELATED inputs run one after the other inside
//              one case (hence one process): a base value or text and variants
//              of it that differ in one field, repeat it, or carry the same
//              payload under another message type; every step is a dec / parse /
//              enc case of its own.  The codec is a pure function of its input,
//              so model and oracle judge every step by itself: an observation
//              that depends on what was encoded or decoded before shows up as a
//              failing step.  Ids, public keys and signatures of events are
//              drawn freshly per case (64/128 lower-case hex digits), so
//              process-wide state keyed by them cannot leak from one case of a
//              generation run into another, and -replay runs every case of a
//              multi-case file in a process of its own.

import (
	"bytes"
	"encoding/json"
	"os"
	"os/exec"
	"strings"

	"github.com/high-moctane/mocrelay"
	"verif/harness/common"
)

type c10Case struct {
	K    string `json:"k"`   // dec | parse | enc | raw
	Cls  string `json:"cls"` // generator class (for the distribution only)
	Ty   string `json:"ty,omitempty"`
	Lead bool   `json:"lead,omitempty"`
	Esc  bool   `json:"esc,omitempty"`
	J    *JV    `json:"j,omitempty"`
	Text string `json:"text,omitempty"` // hex of the bytes fed to the implementation
	O1   *Obs   `json:"o1,omitempty"`
	Enc  *JV    `json:"enc,omitempty"` // Marshal output read back as a JSON value
	O2   *Obs   `json:"o2,omitempty"`
	V    *XVal  `json:"v,omitempty"` // enc: the value marshalled
	Acc  bool   `json:"acc,omitempty"`
	Pan  bool   `json:"pan,omitempty"`
	Len  int    `json:"len,omitempty"`

	Steps []c10Case `json:"steps,omitempty"` // seq
}

const c10MaxDepth = 40
const c10MaxSize = 20000

// ---- running ---------------------------------------------------------------

func c10Decode(ty string, text []byte) (o Obs, p any) {
	defer func() {
		if r := recover(); r != nil {
			o, p = Obs{R: "panic"}, nil
		}
	}()
	if ty == "parse" {
		m, err := mocrelay.ParseClientMsg(text)
		if err != nil {
			return Obs{R: "err"}, nil
		}
		x := toX(m)
		return Obs{R: "val", V: &x}, m
	}
	t := newTarget(ty)
	if err := json.Unmarshal(text, t); err != nil {
		return Obs{R: "err"}, nil
	}
	x := toX(t)
	return Obs{R: "val", V: &x}, t
}

// c10Text: run one text against one target ("parse" or a type name)
func c10Text(cls, ty string, text []byte) c10Case {
	c := c10Case{Cls: cls, Ty: ty, Text: textOf(text), Len: len(text)}
	o1, p := c10Decode(ty, text)
	j, ok := parseJV(text, c10MaxDepth, c10MaxSize)
	if !ok {
		c.K = "raw"
		c.Acc = o1.R == "val"
		c.Pan = o1.R == "panic"
		return c
	}
	if ty == "parse" {
		c.K = "parse"
		c.Ty = ""
		c.Lead = leadingWS(text)
		c.Esc = labelSpelledWithEscape(text)
	} else {
		c.K = "dec"
	}
	c.J = &j
	c.O1 = &o1
	if o1.R == "val" {
		t2, pan := marshal(p)
		if t2 == nil {
			r := "err"
			if pan {
				r = "panic"
			}
			c.O2 = &Obs{R: r}
			return c
		}
		if e, ok := parseJV(t2, c10MaxDepth, c10MaxSize); ok {
			c.Enc = &e
		}
		o2, _ := c10Decode(ty, t2)
		c.O2 = &o2
	}
	return c
}

func c10Enc(cls string, v XVal) c10Case {
	c := c10Case{K: "enc", Cls: cls, V: &v}
	p := fromX(v)
	t, pan := marshal(p)
	if t == nil {
		r := "err"
		if pan {
			r = "panic"
		}
		c.O1 = &Obs{R: r}
		return c
	}
	c.Text = hexOf(t)
	if e, ok := parseJV(t, c10MaxDepth, c10MaxSize); ok {
		c.Enc = &e
	}
	o, _ := c10Decode(v.T, t)
	c.O1 = &o
	return c
}

// ---- generators ------------------------------------------------------------

var c10Strs = []string{"", "a", "s1", "sub", "hello world", "q\"uote", "back\\slash", "line\nfeed", "tab\t",
	"é", "日本語", "😀", " x", "<a>&", "\x00", "pow: x", "error: ", "duplicate: dup", "pow:",
	"invalid:  two", "e", "#e", "EVENT", "0123abcd", "/slash/", "blocked: b", "rate-limited: slow", "x\u007f",
	// text that merely looks like an escape: a literal backslash followed by u003c, u0026, u2028, n (an encoder that
	// post-processes its output textually mistakes these for escapes it wrote itself)
	"\\u003c", "a\\u003eb", "\\u0026", "\\u2028", "\\n", "\\\\u003c", "\\\""}

var c10WideInts = []int64{1<<53 + 1, 1<<53 - 1, 1<<62 + 1, 9223372036854775807, 9223372036854775806, 9223372036854775295,
	-(1<<53 + 1), -9223372036854775808, -9223372036854775807}
var c10Ints = []int64{0, 1, 5, -1, 3, 65535, 65536, 30000, 1700000000, -5, 7}
var c10BigLits = []JV{
	jIntLit(false, "9223372036854775807"), jIntLit(false, "9223372036854775808"),
	jIntLit(true, "9223372036854775808"), jIntLit(true, "9223372036854775809"),
	jIntLit(false, "18446744073709551615"), jIntLit(false, "18446744073709551616"),
	jIntLit(true, "0"), jIntLit(true, "1"), jIntLit(false, strings.Repeat("7", 400)),
}
var c10Fracs = []string{"1.5", "1.0", "1e3", "1E+2", "-0.0", "0e0", "2.5e-3", "1e400", "0.0"}

func c10Str(r *common.Rand) string { return common.Pick(r, c10Strs) }

// c10Hex: n lower-case hex digits drawn from r (fresh per case: cases never share them)
func c10Hex(r *common.Rand, n int) string {
	b := make([]byte, n)
	for i := range b {
		b[i] = "0123456789abcdef"[r.Intn(16)]
	}
	return string(b)
}

// c10EvStrs: id, pubkey, sig of a generated event: 40% of the events carry
// protocol-shaped ones (64/64/128 hex digits, each kept with 90%), the others
// strings of the small universe
func c10EvStrs(r *common.Rand) (id, pk, sig string) {
	id, pk, sig = c10Str(r), c10Str(r), c10Str(r)
	if r.Chance(40) {
		if r.Chance(90) {
			id = c10Hex(r, 64)
		}
		if r.Chance(90) {
			pk = c10Hex(r, 64)
		}
		if r.Chance(90) {
			sig = c10Hex(r, 128)
		}
	}
	return
}

func c10Num(r *common.Rand) JV {
	switch k := r.Intn(100); {
	case k < 84:
		return jInt(common.Pick(r, c10Ints))
	case k < 93:
		return common.Pick(r, c10BigLits)
	default:
		return jFrac(common.Pick(r, c10Fracs))
	}
}

func c10Any(r *common.Rand, depth int) JV {
	k := r.Intn(8)
	if depth <= 0 && k >= 6 {
		k = r.Intn(6)
	}
	switch k {
	case 0:
		return jNull()
	case 1:
		return jBool(r.Bool())
	case 2, 3:
		return c10Num(r)
	case 4, 5:
		return jStr(c10Str(r))
	case 6:
		n := r.Intn(3)
		a := []JV{}
		for i := 0; i < n; i++ {
			a = append(a, c10Any(r, depth-1))
		}
		return JV{T: 'a', A: a}
	default:
		n := r.Intn(3)
		m := []JMember{}
		for i := 0; i < n; i++ {
			m = append(m, JMember{common.Pick(r, []string{"a", "id", "count", "ids", "#e", ""}), c10Any(r, depth-1)})
		}
		return JV{T: 'o', O: m}
	}
}

func c10StrArr(r *common.Rand, max int) JV {
	n := r.Intn(max + 1)
	a := []JV{}
	for i := 0; i < n; i++ {
		a = append(a, jStr(c10Str(r)))
	}
	return JV{T: 'a', A: a}
}

func c10EventJV(r *common.Rand) JV {
	nt := r.Intn(4)
	tags := []JV{}
	for i := 0; i < nt; i++ {
		tags = append(tags, c10StrArr(r, 3))
	}
	id, pk, sig := c10EvStrs(r)
	return jObj(
		JMember{"id", jStr(id)}, JMember{"pubkey", jStr(pk)},
		JMember{"created_at", c10Num(r)}, JMember{"kind", c10Num(r)},
		JMember{"tags", JV{T: 'a', A: tags}}, JMember{"content", jStr(c10Str(r))}, JMember{"sig", jStr(sig)})
}

var c10TagKeys = []string{"#e", "#p", "#a", "#t", "#Z", "#e", "#d", "#ee", "#1", "#é", "#", "e", "#_"}

func c10FilterJV(r *common.Rand) JV {
	m := []JMember{}
	sel := []int{20, 45, 75}[r.Intn(3)]
	if r.Chance(sel) {
		m = append(m, JMember{"ids", c10StrArr(r, 3)})
	}
	if r.Chance(sel) {
		m = append(m, JMember{"authors", c10StrArr(r, 3)})
	}
	if r.Chance(sel) {
		n := r.Intn(4)
		a := []JV{}
		for i := 0; i < n; i++ {
			a = append(a, c10Num(r))
		}
		m = append(m, JMember{"kinds", JV{T: 'a', A: a}})
	}
	nt := 0
	if r.Chance(sel) {
		nt = 1 + r.Intn(3)
	}
	for i := 0; i < nt; i++ {
		k := c10TagKeys[r.Intn(5)] // mostly legal names
		if r.Chance(12) {
			k = common.Pick(r, c10TagKeys)
		}
		m = append(m, JMember{k, c10StrArr(r, 3)})
	}
	for _, k := range []string{"since", "until", "limit"} {
		if r.Chance(sel) {
			m = append(m, JMember{k, c10Num(r)})
		}
	}
	return JV{T: 'o', O: m}
}

var c10Labels = map[string]string{"cevent": "EVENT", "creq": "REQ", "cclose": "CLOSE", "cauth": "AUTH", "ccount": "COUNT",
	"seose": "EOSE", "sevent": "EVENT", "snotice": "NOTICE", "sok": "OK", "sauth": "AUTH", "scount": "COUNT", "sclosed": "CLOSED"}

func c10ShapeJV(t string, r *common.Rand) JV {
	lbl := func() JV { return jStr(c10Labels[t]) }
	switch t {
	case "event":
		return c10EventJV(r)
	case "filter":
		return c10FilterJV(r)
	case "cevent", "cauth":
		return jArr(lbl(), c10EventJV(r))
	case "creq", "ccount":
		a := []JV{lbl(), jStr(c10Str(r))}
		n := 1 + r.Intn(3)
		for i := 0; i < n; i++ {
			a = append(a, c10FilterJV(r))
		}
		return JV{T: 'a', A: a}
	case "cclose", "seose", "snotice", "sauth":
		return jArr(lbl(), jStr(c10Str(r)))
	case "sevent":
		return jArr(lbl(), jStr(c10Str(r)), c10EventJV(r))
	case "sok":
		return jArr(lbl(), jStr(c10Str(r)), jBool(r.Bool()), jStr(c10Str(r)))
	case "scount":
		m := []JMember{}
		ck := "count"
		if r.Chance(10) {
			ck = common.Pick(r, []string{"Count", "COUNT", "cOunt", "count "})
		}
		cv := c10Num(r)
		if r.Chance(5) {
			cv = jNull()
		}
		if r.Chance(92) {
			m = append(m, JMember{ck, cv})
		}
		if r.Chance(50) {
			ak := "approximate"
			if r.Chance(10) {
				ak = common.Pick(r, []string{"Approximate", "APPROXIMATE", "approx"})
			}
			av := jBool(r.Bool())
			if r.Chance(8) {
				av = jNull()
			}
			m = append(m, JMember{ak, av})
		}
		if len(m) >= 2 && r.Chance(50) {
			m[0], m[len(m)-1] = m[len(m)-1], m[0]
		}
		return jArr(lbl(), jStr(c10Str(r)), JV{T: 'o', O: m})
	case "sclosed":
		return jArr(lbl(), jStr(c10Str(r)), jStr(c10Str(r)))
	}
	panic("shape " + t)
}

func c10Nodes(j *JV, out *[]*JV) {
	*out = append(*out, j)
	for i := range j.A {
		c10Nodes(&j.A[i], out)
	}
	for i := range j.O {
		c10Nodes(&j.O[i].V, out)
	}
}

var c10OtherKeys = []string{"x", "ID", "Kind", "extra", "", "#ee", "search", "Ids", "count"}

// c10Mutate: one point mutation somewhere in the tree; returns its name
func c10Mutate(r *common.Rand, root *JV) string {
	var nodes []*JV
	c10Nodes(root, &nodes)
	var objs, arrs []*JV
	for _, x := range nodes {
		switch x.T {
		case 'o':
			objs = append(objs, x)
		case 'a':
			arrs = append(arrs, x)
		}
	}
	var n *JV
	switch pick := r.Intn(100); {
	case pick < 40 && len(objs) > 0:
		n = objs[r.Intn(len(objs))]
	case pick < 65 && len(arrs) > 0:
		n = arrs[r.Intn(len(arrs))]
	default:
		n = nodes[r.Intn(len(nodes))]
	}
	isLabel := root.T == 'a' && len(root.A) > 0 && n == &root.A[0]
	switch n.T {
	case 'a':
		switch r.Intn(5) {
		case 0:
			if len(n.A) > 0 {
				i := r.Intn(len(n.A))
				n.A = append(n.A[:i:i], n.A[i+1:]...)
				return "drop-element"
			}
		case 1:
			n.A = append(n.A, c10Any(r, 1))
			return "extra-element"
		case 2:
			if len(n.A) > 0 {
				n.A[r.Intn(len(n.A))] = jNull()
				return "null-element"
			}
		case 3:
			if len(n.A) > 0 {
				i := r.Intn(len(n.A))
				n.A = append(n.A, n.A[i])
				return "dup-element"
			}
		}
	case 'o':
		switch r.Intn(6) {
		case 0:
			if len(n.O) > 0 {
				i := r.Intn(len(n.O))
				n.O = append(n.O[:i:i], n.O[i+1:]...)
				return "drop-member"
			}
		case 1:
			n.O = append(n.O, JMember{common.Pick(r, c10OtherKeys), c10Any(r, 1)})
			return "extra-member"
		case 2:
			if len(n.O) > 0 {
				i := r.Intn(len(n.O))
				d := n.O[i]
				if r.Bool() {
					d.V = c10Any(r, 1)
				}
				if r.Bool() {
					n.O = append(n.O, d)
				} else {
					n.O = append([]JMember{d}, n.O...)
				}
				return "dup-member"
			}
		case 3:
			if len(n.O) > 0 {
				i := r.Intn(len(n.O))
				n.O[i].K = strings.ToUpper(n.O[i].K)
				return "upper-key"
			}
		case 4:
			if len(n.O) > 0 {
				n.O[r.Intn(len(n.O))].V = jNull()
				return "null-member"
			}
		}
	case 's':
		if isLabel && r.Chance(60) {
			n.S = common.Pick(r, []string{"EVENT", "REQ", "CLOSE", "AUTH", "COUNT", "OK", "EOSE", "NOTICE", "CLOSED", "event", "EVENT_", ""})
			return "label-swap"
		}
	}
	*n = c10Any(r, 1)
	return "wrong-type"
}

func c10Shuffle(r *common.Rand, j *JV) {
	if j.T == 'o' {
		for i := len(j.O) - 1; i > 0; i-- {
			k := r.Intn(i + 1)
			j.O[i], j.O[k] = j.O[k], j.O[i]
		}
	}
	for i := range j.A {
		c10Shuffle(r, &j.A[i])
	}
	for i := range j.O {
		c10Shuffle(r, &j.O[i].V)
	}
}

func c10GenText(r *common.Rand) c10Case {
	t := common.Pick(r, allTypes)
	j := c10ShapeJV(t, r)
	cls := "shape"
	nm := []int{0, 0, 0, 1, 1, 2}[r.Intn(6)]
	for i := 0; i < nm; i++ {
		cls = "mut:" + c10Mutate(r, &j)
	}
	if r.Chance(50) {
		c10Shuffle(r, &j)
	}
	target := t
	isClient := false
	for _, ct := range clientTypes {
		if ct == t {
			isClient = true
		}
	}
	ps := &printStyle{r: r, ws: []int{0, 10, 40}[r.Intn(3)], esc: []int{0, 5, 30}[r.Intn(3)]}
	if (isClient && r.Chance(55)) || r.Chance(6) {
		target = "parse"
		ps.lead = r.Chance(8)
		ps.labelEsc = r.Chance(4)
	} else if r.Chance(8) {
		target = common.Pick(r, allTypes)
		cls = "cross-type"
	}
	if r.Chance(6) {
		ps.bad, ps.noLabel = 30, true
	}
	text := ps.print(j)
	if ps.injected > 0 {
		cls = "raw:utf8-any"
	}
	return c10Text(cls, target, text)
}

// ---- values for the Marshal -> Unmarshal stream ------------------------------

func c10XEvent(r *common.Rand, wf bool) *XEvent {
	id, pk, sig := c10EvStrs(r)
	e := &XEvent{ID: HStr(id), PK: HStr(pk), TS: common.Pick(r, c10Ints), Kind: common.Pick(r, c10Ints),
		Content: HStr(c10Str(r)), Sig: HStr(sig)}
	if r.Chance(10) {
		e.TS = common.Pick(r, append([]int64{9223372036854775807, -9223372036854775808}, c10WideInts...))
	}
	if !wf && r.Chance(40) {
		return e // nil Tags
	}
	tags := []*[]HStr{}
	nt := r.Intn(4)
	for i := 0; i < nt; i++ {
		if !wf && r.Chance(25) {
			tags = append(tags, nil)
			continue
		}
		t := []HStr{}
		n := r.Intn(4)
		for k := 0; k < n; k++ {
			t = append(t, HStr(c10Str(r)))
		}
		tags = append(tags, &t)
	}
	e.Tags = &tags
	return e
}

func c10HStrs(r *common.Rand, max int) *[]HStr {
	n := r.Intn(max + 1)
	out := []HStr{}
	for i := 0; i < n; i++ {
		out = append(out, HStr(c10Str(r)))
	}
	return &out
}

func c10XFilter(r *common.Rand, wf bool) *XFilter {
	f := &XFilter{}
	sel := []int{20, 45, 75}[r.Intn(3)]
	if r.Chance(sel) {
		f.IDs = c10HStrs(r, 3)
	}
	if r.Chance(sel) {
		f.Authors = c10HStrs(r, 3)
	}
	if r.Chance(sel) {
		ks := []int64{}
		n := r.Intn(4)
		for i := 0; i < n; i++ {
			ks = append(ks, common.Pick(r, c10Ints))
		}
		f.Kinds = &ks
	}
	if r.Chance(sel) {
		names := []string{"e", "p", "a", "t", "Z", "d"}
		if !wf {
			names = append(names, "ee", "1", "", "é")
		}
		tcs := []XTagCond{}
		n := 1 + r.Intn(3)
		if !wf && r.Chance(20) {
			n = 0 // empty non-nil map
		}
		for i := 0; i < n && len(names) > 0; i++ {
			k := r.Intn(len(names))
			tc := XTagCond{K: HStr(names[k])}
			names = append(names[:k], names[k+1:]...)
			if wf || r.Chance(75) {
				tc.V = c10HStrs(r, 3)
			}
			tcs = append(tcs, tc)
		}
		f.Tags = &tcs
	}
	if r.Chance(sel) {
		f.Since = common.Ptr(common.Pick(r, c10Ints))
	}
	if r.Chance(sel) {
		f.Until = common.Ptr(common.Pick(r, c10Ints))
	}
	if r.Chance(sel) {
		f.Limit = common.Ptr(common.Pick(r, c10Ints))
	}
	// integers a float64 cannot hold exactly, and the ends of int64 (a decoder that goes through a float loses them)
	for _, p := range []**int64{&f.Since, &f.Until, &f.Limit} {
		if *p != nil && r.Chance(15) {
			*p = common.Ptr(common.Pick(r, c10WideInts))
		}
	}
	return f
}

var c10Prefixes = []string{"pow: ", "duplicate: ", "blocked: ", "rate-limited: ", "invalid: ", "error: "}

func c10Reason(r *common.Rand, wf bool) (pfx, msg string) {
	if wf {
		if r.Chance(50) {
			return common.Pick(r, c10Prefixes), c10Str(r)
		}
		for {
			m := c10Str(r)
			ok := true
			for _, p := range c10Prefixes {
				if strings.HasPrefix(m, p) {
					ok = false
				}
			}
			if ok {
				return "", m
			}
		}
	}
	return common.Pick(r, []string{"", "bogus: ", "pow:", "error: error: ", "pow: "}), c10Str(r)
}

func c10GenValue(r *common.Rand) c10Case {
	t := common.Pick(r, allTypes)
	wf := r.Chance(70)
	cls := "value:wf"
	if !wf {
		cls = "value:other"
	}
	return c10Enc(cls, c10XValOf(r, t, wf))
}

// c10XValOf: a Go value of the type named t (wf: a well-formed one)
func c10XValOf(r *common.Rand, t string, wf bool) XVal {
	v := XVal{T: t}
	filters := func() []*XFilter {
		n := 1 + r.Intn(3)
		if !wf && r.Chance(25) {
			n = 0
		}
		fs := []*XFilter{}
		for i := 0; i < n; i++ {
			if !wf && r.Chance(20) {
				fs = append(fs, nil)
				continue
			}
			fs = append(fs, c10XFilter(r, wf))
		}
		return fs
	}
	event := func() *XEvent {
		if !wf && r.Chance(25) {
			return nil
		}
		return c10XEvent(r, wf)
	}
	switch t {
	case "event":
		v.E = c10XEvent(r, wf)
	case "filter":
		v.F = c10XFilter(r, wf)
	case "cevent", "cauth":
		v.E = event()
	case "creq", "ccount":
		v.Sub = HStr(c10Str(r))
		v.Fs = filters()
	case "cclose", "seose":
		v.Sub = HStr(c10Str(r))
	case "sevent":
		v.Sub = HStr(c10Str(r))
		v.E = event()
	case "snotice", "sauth":
		v.Msg = HStr(c10Str(r))
	case "sok":
		v.ID = HStr(c10Str(r))
		v.Acc = r.Bool()
		p, m := c10Reason(r, wf)
		v.Pfx, v.Msg = HStr(p), HStr(m)
	case "scount":
		v.Sub = HStr(c10Str(r))
		v.Count = common.Pick(r, []string{"0", "1", "42", "9223372036854775807", "9223372036854775808", "18446744073709551615"})
		if r.Bool() {
			v.Approx = common.Ptr(r.Bool())
		}
	case "sclosed":
		v.Sub = HStr(c10Str(r))
		p, m := c10Reason(r, wf)
		v.Pfx, v.Msg = HStr(p), HStr(m)
	}
	return v
}

// ---- malformed stream --------------------------------------------------------

var c10Alphabet = []byte(`[]{}":,\ntrue falsnl0123456789.eE+-u"EVENTREQ #` + "\x00\x80\xff\xc3\xe2\x28 \t\n")

func c10ValidText(r *common.Rand) (string, []byte) {
	t := common.Pick(r, allTypes)
	j := c10ShapeJV(t, r)
	ps := &printStyle{r: r, ws: 10, esc: 5}
	return t, ps.print(j)
}

func c10GenRaw(r *common.Rand) c10Case {
	target := func(t string) string {
		for _, ct := range clientTypes {
			if ct == t && r.Bool() {
				return "parse"
			}
		}
		if r.Chance(15) {
			return common.Pick(r, append([]string{"parse"}, allTypes...))
		}
		return t
	}
	switch k := r.Intn(100); {
	case k < 18: // arbitrary bytes
		n := r.Intn(40)
		b := make([]byte, n)
		for i := range b {
			if r.Chance(85) {
				b[i] = common.Pick(r, c10Alphabet)
			} else {
				b[i] = byte(r.Intn(256))
			}
		}
		return c10Text("raw:bytes", common.Pick(r, append([]string{"parse"}, allTypes...)), b)
	case k < 34: // truncation
		t, text := c10ValidText(r)
		if len(text) > 0 {
			text = text[:r.Intn(len(text))]
		}
		return c10Text("raw:truncated", target(t), text)
	case k < 58: // byte-level near miss
		t, text := c10ValidText(r)
		n := 1 + r.Intn(2)
		for i := 0; i < n && len(text) > 0; i++ {
			p := r.Intn(len(text))
			switch r.Intn(4) {
			case 0:
				text[p] = common.Pick(r, c10Alphabet)
			case 1:
				text = append(text[:p:p], text[p+1:]...)
			case 2:
				text = append(text[:p:p], append([]byte{common.Pick(r, c10Alphabet)}, text[p:]...)...)
			default:
				text[p] ^= byte(1 << uint(r.Intn(8)))
			}
		}
		return c10Text("raw:byte-mutation", target(t), text)
	case k < 66: // deep nesting
		n := common.Pick(r, []int{50, 1000, 9999, 10000, 10001, 100000})
		open, cl := "[", "]"
		if r.Chance(30) {
			open, cl = `{"a":`, "}"
		}
		core := strings.Repeat(open, n) + common.Pick(r, []string{"", "1", `"x"`, "null"}) + strings.Repeat(cl, n)
		var text string
		ty := common.Pick(r, append([]string{"parse"}, allTypes...))
		switch r.Intn(5) {
		case 0:
			text = core
		case 1:
			text = `["EVENT",` + core + `]`
			ty = common.Pick(r, []string{"parse", "cevent"})
		case 2:
			text = `["REQ","s",{"ids":` + core + `}]`
			ty = common.Pick(r, []string{"parse", "creq"})
		case 3:
			text = `{"id":"a","pubkey":"b","created_at":1,"kind":1,"tags":` + core + `,"content":"","sig":""}`
			ty = "event"
		default:
			text = `["COUNT","s",{"count":` + core + `}]`
			ty = "scount"
		}
		return c10Text("raw:deep", ty, []byte(text))
	case k < 74: // huge numbers
		big := common.Pick(r, []string{strings.Repeat("9", 400), "-" + strings.Repeat("9", 400), "1e400", "1" + strings.Repeat("0", 400) + ".5", "0." + strings.Repeat("0", 400) + "1"})
		var text, ty string
		switch r.Intn(5) {
		case 0:
			text, ty = `["REQ","s",{"limit":`+big+`}]`, common.Pick(r, []string{"parse", "creq"})
		case 1:
			text, ty = `["REQ","s",{"kinds":[1,`+big+`]}]`, common.Pick(r, []string{"parse", "creq"})
		case 2:
			text, ty = `["COUNT","s",{"count":`+big+`}]`, "scount"
		case 3:
			text, ty = `{"id":"a","pubkey":"b","created_at":`+big+`,"kind":1,"tags":[],"content":"","sig":""}`, "event"
		default:
			text, ty = `["OK","x",`+big+`,""]`, "sok"
		}
		return c10Text("raw:bignum", ty, []byte(text))
	case k < 94: // invalid UTF-8 at any string position (values and member names) of a message of any type
		t := common.Pick(r, allTypes)
		j := c10ShapeJV(t, r)
		var text []byte
		for try := 0; try < 6; try++ {
			ps := &printStyle{r: r, ws: []int{0, 10}[r.Intn(2)], esc: []int{0, 0, 5, 30}[r.Intn(4)],
				bad: []int{15, 35, 70}[r.Intn(3)], noLabel: r.Chance(85)}
			text = ps.print(j)
			if ps.injected > 0 {
				break
			}
		}
		return c10Text("raw:utf8-any", target(t), text)
	default: // invalid UTF-8 inside strings, fixed texts
		bad := common.Pick(r, []string{"\xff", "\xc3", "\xe2\x82", "\xed\xa0\x80", "\xf4\x90\x80\x80", "\xc0\xaf", "a\x80b"})
		var text, ty string
		switch r.Intn(5) {
		case 0:
			text, ty = `["CLOSE","`+bad+`"]`, common.Pick(r, []string{"parse", "cclose"})
		case 1:
			text, ty = `["REQ","s",{"#e":["`+bad+`"],"ids":["`+bad+`x"]}]`, common.Pick(r, []string{"parse", "creq"})
		case 2:
			text, ty = `["NOTICE","`+bad+`"]`, "snotice"
		case 3:
			text, ty = `{"id":"`+bad+`","pubkey":"b","created_at":1,"kind":1,"tags":[["`+bad+`"]],"content":"`+bad+`","sig":""}`, "event"
		default:
			text, ty = `["REQ","s",{"#`+bad+`":[]}]`, common.Pick(r, []string{"parse", "creq"})
		}
		return c10Text("raw:utf8-fixed", ty, []byte(text))
	}
}

// ---- histories of related inputs ---------------------------------------------

func (j JV) clone() JV {
	c := j
	if j.A != nil {
		c.A = make([]JV, len(j.A))
		for i := range j.A {
			c.A[i] = j.A[i].clone()
		}
	}
	if j.O != nil {
		c.O = make([]JMember, len(j.O))
		for i := range j.O {
			c.O[i] = JMember{j.O[i].K, j.O[i].V.clone()}
		}
	}
	return c
}

func c10CloneX(v XVal) XVal {
	b, err := json.Marshal(v)
	if err != nil {
		panic(err)
	}
	var c XVal
	if err := json.Unmarshal(b, &c); err != nil {
		panic(err)
	}
	return c
}

// types that carry the same payload in the same XVal fields
var c10Kin = [][]string{{"event", "cevent", "cauth", "sevent"}, {"creq", "ccount"}, {"cclose", "seose"}, {"snotice", "sauth"}}

func c10KinOf(t string) []string {
	for _, g := range c10Kin {
		for _, x := range g {
			if x == t {
				return g
			}
		}
	}
	return nil
}

// c10VaryStr: another string for a field that holds s (hex stays hex of the same length, mostly)
func c10VaryStr(r *common.Rand, s string) string {
	if (len(s) == 64 || len(s) == 128) && r.Chance(70) {
		return c10Hex(r, len(s))
	}
	return c10Str(r)
}

// c10PerturbX: change one field of v (or nothing, or its message type); returns the name of the change
func c10PerturbX(r *common.Rand, v *XVal, wf bool) string {
	k := r.Intn(100)
	if k < 12 {
		return "repeat"
	}
	if g := c10KinOf(v.T); g != nil && k < 24 {
		if v.E == nil && g[0] == "event" {
			return "repeat" // a bare event is never nil
		}
		v.T = common.Pick(r, g)
		return "retype"
	}
	str := func(h *HStr) { *h = HStr(c10VaryStr(r, string(*h))) }
	switch v.T {
	case "event", "cevent", "cauth", "sevent":
		if v.E == nil || (v.T == "sevent" && r.Chance(12)) {
			if v.T == "sevent" {
				str(&v.Sub)
				return "sub"
			}
			return "repeat"
		}
		e := v.E
		switch r.Intn(7) {
		case 0:
			str(&e.ID)
			return "ev-id"
		case 1:
			str(&e.PK)
			return "ev-pubkey"
		case 2:
			e.TS = common.Pick(r, c10Ints)
			return "ev-created_at"
		case 3:
			e.Kind = common.Pick(r, c10Ints)
			return "ev-kind"
		case 4:
			var tags []*[]HStr
			if e.Tags != nil {
				tags = append(tags, (*e.Tags)...)
			}
			n := len(tags)
			switch {
			case n > 0 && r.Chance(35): // drop a tag
				i := r.Intn(n)
				tags = append(tags[:i:i], tags[i+1:]...)
			case n > 0 && r.Chance(50): // change one element of one tag
				i := r.Intn(n)
				if tags[i] != nil && len(*tags[i]) > 0 {
					c := append([]HStr{}, (*tags[i])...)
					c[r.Intn(len(c))] = HStr(c10Str(r))
					tags[i] = &c
				} else {
					tags[i] = c10HStrs(r, 3)
				}
			default: // one more tag
				tags = append(tags, c10HStrs(r, 3))
			}
			if tags == nil {
				tags = []*[]HStr{}
			}
			e.Tags = &tags
			return "ev-tags"
		case 5:
			e.Content = HStr(c10Str(r))
			return "ev-content"
		default:
			str(&e.Sig)
			return "ev-sig"
		}
	case "filter":
		if v.F == nil {
			return "repeat"
		}
		c10PerturbF(r, v.F, wf)
		return "filter-field"
	case "creq", "ccount":
		switch n := len(v.Fs); {
		case r.Chance(25):
			str(&v.Sub)
			return "sub"
		case n > 1 && r.Chance(20):
			i := r.Intn(n)
			v.Fs = append(v.Fs[:i:i], v.Fs[i+1:]...)
			return "drop-filter"
		case n < 3 && r.Chance(20):
			v.Fs = append(v.Fs, c10XFilter(r, wf))
			return "add-filter"
		case n > 0:
			i := r.Intn(n)
			if v.Fs[i] == nil {
				v.Fs[i] = c10XFilter(r, wf)
			} else {
				c10PerturbF(r, v.Fs[i], wf)
			}
			return "filter-field"
		default:
			str(&v.Sub)
			return "sub"
		}
	case "cclose", "seose":
		str(&v.Sub)
		return "sub"
	case "snotice", "sauth":
		str(&v.Msg)
		return "msg"
	case "sok":
		switch r.Intn(3) {
		case 0:
			str(&v.ID)
			return "ok-id"
		case 1:
			v.Acc = !v.Acc
			return "ok-accepted"
		default:
			p, m := c10Reason(r, wf)
			v.Pfx, v.Msg = HStr(p), HStr(m)
			return "reason"
		}
	case "scount":
		switch r.Intn(3) {
		case 0:
			str(&v.Sub)
			return "sub"
		case 1:
			v.Count = common.Pick(r, []string{"0", "1", "42", "9223372036854775807", "9223372036854775808", "18446744073709551615"})
			return "count"
		default:
			if v.Approx == nil {
				v.Approx = common.Ptr(r.Bool())
			} else if r.Bool() {
				v.Approx = nil
			} else {
				v.Approx = common.Ptr(!*v.Approx)
			}
			return "approximate"
		}
	case "sclosed":
		if r.Bool() {
			str(&v.Sub)
			return "sub"
		}
		p, m := c10Reason(r, wf)
		v.Pfx, v.Msg = HStr(p), HStr(m)
		return "reason"
	}
	return "repeat"
}

// c10PerturbF: one field of f takes the value it has in a freshly generated filter
func c10PerturbF(r *common.Rand, f *XFilter, wf bool) {
	for try := 0; try < 8; try++ {
		g := c10XFilter(r, wf)
		switch r.Intn(7) {
		case 0:
			if f.IDs != nil || g.IDs != nil {
				f.IDs = g.IDs
				return
			}
		case 1:
			if f.Authors != nil || g.Authors != nil {
				f.Authors = g.Authors
				return
			}
		case 2:
			if f.Kinds != nil || g.Kinds != nil {
				f.Kinds = g.Kinds
				return
			}
		case 3:
			if f.Tags != nil || g.Tags != nil {
				f.Tags = g.Tags
				return
			}
		case 4:
			if f.Since != nil || g.Since != nil {
				f.Since = g.Since
				return
			}
		case 5:
			if f.Until != nil || g.Until != nil {
				f.Until = g.Until
				return
			}
		default:
			if f.Limit != nil || g.Limit != nil {
				f.Limit = g.Limit
				return
			}
		}
	}
}

// c10PerturbJV: replace one scalar leaf of the tree (not the label) by another
// scalar of its kind (or nothing, or a structural point mutation)
func c10PerturbJV(r *common.Rand, root *JV) string {
	k := r.Intn(100)
	if k < 12 {
		return "repeat"
	}
	if k < 22 {
		return "mut:" + c10Mutate(r, root)
	}
	var nodes, leaves []*JV
	c10Nodes(root, &nodes)
	for _, n := range nodes {
		if root.T == 'a' && len(root.A) > 0 && n == &root.A[0] {
			continue
		}
		switch n.T {
		case 's', 'i', 'f', 'b', 'z', 0:
			leaves = append(leaves, n)
		}
	}
	if len(leaves) == 0 {
		return "repeat"
	}
	n := leaves[r.Intn(len(leaves))]
	switch n.T {
	case 's':
		n.S = c10VaryStr(r, n.S)
		return "leaf-string"
	case 'i', 'f':
		*n = c10Num(r)
		return "leaf-number"
	case 'b':
		n.B = !n.B
		return "leaf-bool"
	default:
		*n = c10Any(r, 0)
		return "leaf-null"
	}
}

func c10GenSeq(r *common.Rand) c10Case {
	c := c10Case{K: "seq"}
	t := common.Pick(r, allTypes)
	nsteps := 2 + r.Intn(3)
	isClient := false
	for _, ct := range clientTypes {
		if ct == t {
			isClient = true
		}
	}
	if r.Bool() {
		// Go values: Marshal then Unmarshal, one after the other
		c.Cls = "seq:value"
		wf := r.Chance(80)
		vals := []XVal{c10XValOf(r, t, wf)}
		names := []string{"seq:base"}
		for len(vals) < nsteps {
			v := c10CloneX(vals[r.Intn(len(vals))])
			names = append(names, "seq:"+c10PerturbX(r, &v, wf))
			vals = append(vals, v)
		}
		c.Steps = c10RunValueSeq(names, vals)
		return c
	}
	// texts: decode, Marshal, decode again, one after the other
	c.Cls = "seq:text"
	base := c10ShapeJV(t, r)
	if r.Chance(20) {
		c10Mutate(r, &base)
	}
	js := []JV{base}
	names := []string{"seq:base"}
	for len(js) < nsteps {
		j := js[r.Intn(len(js))].clone()
		names = append(names, "seq:"+c10PerturbJV(r, &j))
		js = append(js, j)
	}
	target := t
	if isClient && r.Chance(55) {
		target = "parse"
	}
	kin := c10KinOf(t)
	for i, j := range js {
		tg := target
		if kin != nil && t != "event" && i > 0 && target != "parse" && r.Chance(15) {
			// the same payload under a kindred message type
			if k := common.Pick(r, kin); k != "event" && j.T == 'a' && len(j.A) > 0 {
				tg = k
				j.A[0] = jStr(c10Labels[k])
			}
		}
		ps := &printStyle{r: r, ws: []int{0, 10}[r.Intn(2)], esc: []int{0, 5}[r.Intn(2)]}
		c.Steps = append(c.Steps, c10Text(names[i], tg, ps.print(j)))
	}
	return c
}

// c10RunValueSeq: the values are encoded one after the other.  Before that, every value's own MarshalJSON is
// called directly and the bytes it returned are kept (as a writer that batches its frames keeps them): they
// must still be the same bytes when all the encoding is done.  A step whose kept bytes changed under it is
// recorded with the result "corrupt".
func c10RunValueSeq(names []string, vals []XVal) []c10Case {
	type kept struct{ live, snap []byte }
	hold := func(v XVal) (k *kept) {
		defer func() {
			if recover() != nil {
				k = nil
			}
		}()
		m, ok := fromX(v).(json.Marshaler)
		if !ok {
			return nil
		}
		b, err := m.MarshalJSON()
		if err != nil {
			return nil
		}
		return &kept{live: b, snap: append([]byte{}, b...)}
	}
	ks := make([]*kept, len(vals))
	for i, v := range vals {
		ks[i] = hold(v)
	}
	var steps []c10Case
	for i, v := range vals {
		steps = append(steps, c10Enc(names[i], v))
	}
	for i, k := range ks {
		if k != nil && !bytes.Equal(k.live, k.snap) {
			steps[i].O1 = &Obs{R: "corrupt"}
		}
	}
	return steps
}

// c10Isolated: run one replay case in a process of its own (same binary), so
// that process-wide state of the implementation is shared by the steps of one
// case and by nothing else
func c10Isolated(raw json.RawMessage) json.RawMessage {
	cmd := exec.Command(os.Args[0], "c10", "-out", "/dev/stdout", "-replay", "/dev/stdin")
	cmd.Stdin = bytes.NewReader(append(append([]byte{}, raw...), '\n'))
	cmd.Env = append(os.Environ(), "C10_CHILD=1")
	outb, err := cmd.Output()
	if err != nil {
		common.Fatalf("replay of one case in a child process failed: %v", err)
	}
	outb = bytes.TrimSpace(outb)
	if len(outb) == 0 || bytes.IndexByte(outb, '\n') >= 0 || !json.Valid(outb) {
		common.Fatalf("replay of one case in a child process gave %d bytes, not one case", len(outb))
	}
	return json.RawMessage(outb)
}

// ---- sub-command -------------------------------------------------------------

func c10Replay(raw json.RawMessage) c10Case {
	var c c10Case
	if err := json.Unmarshal(raw, &c); err != nil {
		common.Fatalf("bad replay case: %v", err)
	}
	return c10ReplayCase(c)
}

func c10ReplayCase(c c10Case) c10Case {
	switch c.K {
	case "seq":
		out := c10Case{K: "seq", Cls: c.Cls}
		allEnc := len(c.Steps) > 0
		var names []string
		var vals []XVal
		for _, s := range c.Steps {
			if s.K == "seq" {
				common.Fatalf("nested seq case")
			}
			if s.K != "enc" || s.V == nil {
				allEnc = false
				continue
			}
			names, vals = append(names, s.Cls), append(vals, *s.V)
		}
		if allEnc {
			out.Steps = c10RunValueSeq(names, vals)
			return out
		}
		for _, s := range c.Steps {
			out.Steps = append(out.Steps, c10ReplayCase(s))
		}
		return out
	case "enc":
		if c.V == nil {
			common.Fatalf("enc case without value")
		}
		return c10Enc(c.Cls, *c.V)
	default:
		ty := c.Ty
		if c.K == "parse" || ty == "" {
			ty = "parse"
		}
		var text []byte
		if c.Text != "" || c.J == nil {
			text = unhex(c.Text)
		} else {
			ps := &printStyle{lead: c.Lead, labelEsc: c.Esc}
			text = ps.print(*c.J)
		}
		return c10Text(c.Cls, ty, text)
	}
}

func init() {
	subcmds["c10"] = func(seed uint64, n int, out *common.Out, replay string) {
		if replay != "" {
			lines := common.ReadLines(replay)
			for _, raw := range lines {
				if len(lines) > 1 {
					out.Emit(c10Isolated(raw))
				} else {
					out.Emit(c10Replay(raw))
				}
			}
			return
		}
		root := common.NewRand(seed)
		for i := 0; i < n; i++ {
			r := root.Fork(uint64(i))
			switch k := i % 20; {
			case k < 10:
				out.Emit(c10GenText(r))
			case k < 14:
				out.Emit(c10GenValue(r))
			case k < 16:
				out.Emit(c10GenSeq(r))
			default:
				out.Emit(c10GenRaw(r))
			}
		}
	}
}

var _ = bytes.Equal
