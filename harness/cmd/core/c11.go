package main

// C11: admission.  Streams:
//   admit   well-formed client messages of all five types (every optional part
//           present/absent, random insignificant white space incl. a separate
//           class with white space before the opening bracket) and single-point
//           corruptions of them; observed: ParseClientMsg ok?, ValidClientMsg?,
//           and the decoded value.
//   valid   client message values built directly (nil Tags, nil tag, nil
//           pointers, non-ASCII and invalid UTF-8 bytes in hex fields, ...):
//           ValidClientMsg only.
//   naddr / kind   validNaddr and validKind through the verif hooks.

import (
	"encoding/json"
	"fmt"
	"reflect"
	"strings"

	"github.com/high-moctane/mocrelay"
	"verif/harness/common"
)

type c11Case struct {
	K      string `json:"k"`   // admit | valid | naddr | kind
	Cls    string `json:"cls"` // generator class (distribution, finding signatures)
	Lead   bool   `json:"lead,omitempty"`
	Esc    bool   `json:"esc,omitempty"`
	J      *JV    `json:"j,omitempty"`
	Text   string `json:"text,omitempty"`
	Parsed bool   `json:"parsed"`
	Valid  bool   `json:"valid"`
	Pan    bool   `json:"pan,omitempty"`
	V      *XVal  `json:"v,omitempty"` // admit: decoded value; valid: the input value
	S      *HStr  `json:"s,omitempty"` // naddr
	Kind   *int64 `json:"kind,omitempty"`
}

// ---- running -----------------------------------------------------------------

func c11Admit(cls string, text []byte) c11Case {
	c := c11Case{K: "admit", Cls: cls, Text: hexOf(text)}
	func() {
		defer func() {
			if r := recover(); r != nil {
				c.Pan = true
			}
		}()
		m, err := mocrelay.ParseClientMsg(text)
		if err != nil {
			return
		}
		c.Parsed = true
		x := toX(m)
		c.V = &x
		c.Valid = mocrelay.ValidClientMsg(m)
		// judging is reading: the message is the same afterwards and is judged the same again
		if again := mocrelay.ValidClientMsg(m); again != c.Valid || !reflect.DeepEqual(toX(m), x) {
			c.Pan = true
		}
	}()
	if j, ok := parseJV(text, c10MaxDepth, c10MaxSize); ok {
		c.J = &j
		c.Lead = leadingWS(text)
		c.Esc = labelSpelledWithEscape(text)
	} else {
		c.K = "admit-raw"
	}
	return c
}

func c11Valid(cls string, v XVal) c11Case {
	c := c11Case{K: "valid", Cls: cls, V: &v}
	p := fromX(v)
	c.Valid, c.Pan = validClient(p)
	if m, ok := p.(mocrelay.ClientMsg); ok && !c.Pan {
		func() {
			defer func() {
				if recover() != nil {
					c.Pan = true
				}
			}()
			before := toX(m)
			if again := mocrelay.ValidClientMsg(m); again != c.Valid || !reflect.DeepEqual(toX(m), before) {
				c.Pan = true
			}
		}()
	}
	return c
}

func c11Naddr(cls, s string) c11Case {
	h := HStr(s)
	c := c11Case{K: "naddr", Cls: cls, S: &h}
	func() {
		defer func() {
			if r := recover(); r != nil {
				c.Pan = true
			}
		}()
		c.Valid = mocrelay.VerifValidNaddr(s)
	}()
	return c
}

func c11Kind(k int64) c11Case {
	c := c11Case{K: "kind", Cls: "kind", Kind: &k}
	c.Valid = mocrelay.VerifValidKind(k)
	return c
}

// ---- well-formed generator ----------------------------------------------------

const c11HexDigits = "0123456789abcdef"

func c11Hex(r *common.Rand, n int) string {
	switch r.Intn(4) {
	case 0:
		return strings.Repeat("0", n-1) + string(c11HexDigits[1+r.Intn(15)])
	case 1:
		return strings.Repeat(string(c11HexDigits[r.Intn(16)]), n)
	}
	b := make([]byte, n)
	for i := range b {
		b[i] = c11HexDigits[r.Intn(16)]
	}
	return string(b)
}

var c11Kinds = []int64{0, 1, 3, 5, 7, 10002, 20001, 30000, 30023, 40000, 65535}
var c11Times = []int64{0, 1, 1700000000, 1700000001, 9223372036854775807}
var c11Subs = []string{"", "s", "sub1", "購読", "a b", "0123456789012345678901234567890123456789012345678901234567890123"}
var c11Contents = []string{"", "hello", "q\"uote\\", "line\nfeed", "日本語 😀", "<b>&"}
var c11Ds = []string{"", "x", "profile", "x:y", ":", "a:b:c", "日本"}

func c11Naddr1(r *common.Rand) string {
	return fmt.Sprintf("%d:%s:%s", common.Pick(r, c11Kinds), c11Hex(r, 64), common.Pick(r, c11Ds))
}

func c11WfEvent(r *common.Rand) JV {
	tags := []JV{}
	nt := r.Intn(5)
	for i := 0; i < nt; i++ {
		switch r.Intn(7) {
		case 0:
			tags = append(tags, jStrs("e", c11Hex(r, 64)))
		case 1:
			tags = append(tags, jStrs("p", c11Hex(r, 64), "wss://relay.example"))
		case 2:
			tags = append(tags, jStrs("a", c11Naddr1(r)))
		case 3:
			tags = append(tags, jStrs("d", common.Pick(r, c11Ds)))
		case 4:
			tags = append(tags, jStrs("t"))
		case 5:
			tags = append(tags, jStrs("e", "not-hex")) // tag values are free text for the gate
		default:
			tags = append(tags, jStrs("x", "", "z", ""))
		}
	}
	ts := common.Pick(r, c11Times)
	if r.Chance(10) {
		ts = -common.Pick(r, c11Times) // NIP-01 asks for an integer; negative ones are integers
	}
	return jObj(
		JMember{"id", jStr(c11Hex(r, 64))}, JMember{"pubkey", jStr(c11Hex(r, 64))},
		JMember{"created_at", jInt(ts)}, JMember{"kind", jInt(common.Pick(r, c11Kinds))},
		JMember{"tags", JV{T: 'a', A: tags}}, JMember{"content", jStr(common.Pick(r, c11Contents))},
		JMember{"sig", jStr(c11Hex(r, 128))})
}

func c11HexArr(r *common.Rand, n int) JV {
	k := r.Intn(3)
	a := []JV{}
	for i := 0; i < k; i++ {
		a = append(a, jStr(c11Hex(r, n)))
	}
	return JV{T: 'a', A: a}
}

func c11WfFilter(r *common.Rand) JV {
	m := []JMember{}
	sel := []int{0, 30, 55, 100}[r.Intn(4)]
	if r.Chance(sel) {
		m = append(m, JMember{"ids", c11HexArr(r, 64)})
	}
	if r.Chance(sel) {
		m = append(m, JMember{"authors", c11HexArr(r, 64)})
	}
	if r.Chance(sel) {
		k := r.Intn(4)
		a := []JV{}
		for i := 0; i < k; i++ {
			a = append(a, jInt(common.Pick(r, c11Kinds)))
		}
		m = append(m, JMember{"kinds", JV{T: 'a', A: a}})
	}
	for _, name := range []string{"e", "p", "a", "t", "Z", "d"} {
		if !r.Chance(sel * 2 / 3) {
			continue
		}
		var v JV
		switch name {
		case "e", "p":
			v = c11HexArr(r, 64)
		case "a":
			k := r.Intn(3)
			a := []JV{}
			for i := 0; i < k; i++ {
				a = append(a, jStr(c11Naddr1(r)))
			}
			v = JV{T: 'a', A: a}
		default:
			v = jStrs(common.Pick(r, c11Ds), common.Pick(r, c11Contents))
		}
		m = append(m, JMember{"#" + name, v})
	}
	since := common.Pick(r, c11Times[:4])
	until := common.Pick(r, c11Times)
	if until < since {
		since, until = until, since
	}
	if r.Chance(sel) {
		m = append(m, JMember{"since", jInt(since)})
	}
	if r.Chance(sel) {
		m = append(m, JMember{"until", jInt(until)})
	}
	if r.Chance(sel) {
		m = append(m, JMember{"limit", jInt(common.Pick(r, []int64{0, 1, 10, 500, 9223372036854775807}))})
	}
	return JV{T: 'o', O: m}
}

func c11WfMsg(r *common.Rand) (string, JV) {
	switch r.Intn(5) {
	case 0:
		return "EVENT", jArr(jStr("EVENT"), c11WfEvent(r))
	case 1:
		return "AUTH", jArr(jStr("AUTH"), c11WfEvent(r))
	case 2:
		return "CLOSE", jArr(jStr("CLOSE"), jStr(common.Pick(r, c11Subs)))
	case 3:
		a := []JV{jStr("REQ"), jStr(common.Pick(r, c11Subs))}
		n := 1 + r.Intn(3)
		for i := 0; i < n; i++ {
			a = append(a, c11WfFilter(r))
		}
		return "REQ", JV{T: 'a', A: a}
	default:
		a := []JV{jStr("COUNT"), jStr(common.Pick(r, c11Subs))}
		n := 1 + r.Intn(2)
		for i := 0; i < n; i++ {
			a = append(a, c11WfFilter(r))
		}
		return "COUNT", JV{T: 'a', A: a}
	}
}

// ---- single-point corruptions --------------------------------------------------

type c11Site struct {
	p    *JV
	role string // hex64 hex128 int kind time content tags tag tagelem event filter msg label sub ids kinds-arr kind-elem tagvals:<name> naddr hexelem strelem
	key  string
}

func c11EventSites(e *JV, out *[]c11Site) {
	*out = append(*out, c11Site{e, "event", ""})
	for i := range e.O {
		m := &e.O[i]
		switch m.K {
		case "id", "pubkey":
			*out = append(*out, c11Site{&m.V, "hex64", m.K})
		case "sig":
			*out = append(*out, c11Site{&m.V, "hex128", m.K})
		case "created_at":
			*out = append(*out, c11Site{&m.V, "time", m.K})
		case "kind":
			*out = append(*out, c11Site{&m.V, "kind", m.K})
		case "content":
			*out = append(*out, c11Site{&m.V, "content", m.K})
		case "tags":
			*out = append(*out, c11Site{&m.V, "tags", m.K})
			for k := range m.V.A {
				*out = append(*out, c11Site{&m.V.A[k], "tag", ""})
			}
		}
	}
}

func c11FilterSites(f *JV, out *[]c11Site) {
	*out = append(*out, c11Site{f, "filter", ""})
	for i := range f.O {
		m := &f.O[i]
		switch {
		case m.K == "ids" || m.K == "authors" || m.K == "#e" || m.K == "#p":
			*out = append(*out, c11Site{&m.V, "hexarr", m.K})
			for k := range m.V.A {
				*out = append(*out, c11Site{&m.V.A[k], "hex64", m.K})
			}
		case m.K == "kinds":
			*out = append(*out, c11Site{&m.V, "kinds-arr", m.K})
			for k := range m.V.A {
				*out = append(*out, c11Site{&m.V.A[k], "kind", m.K})
			}
		case m.K == "#a":
			*out = append(*out, c11Site{&m.V, "strarr", m.K})
			for k := range m.V.A {
				*out = append(*out, c11Site{&m.V.A[k], "naddr", m.K})
			}
		case strings.HasPrefix(m.K, "#"):
			*out = append(*out, c11Site{&m.V, "strarr", m.K})
		case m.K == "since" || m.K == "until" || m.K == "limit":
			*out = append(*out, c11Site{&m.V, "nonneg", m.K})
		}
	}
}

func c11Sites(label string, j *JV) []c11Site {
	out := []c11Site{{j, "msg", ""}, {&j.A[0], "label", ""}}
	switch label {
	case "EVENT", "AUTH":
		c11EventSites(&j.A[1], &out)
	case "CLOSE":
		out = append(out, c11Site{&j.A[1], "sub", ""})
	default:
		out = append(out, c11Site{&j.A[1], "sub", ""})
		for i := 2; i < len(j.A); i++ {
			c11FilterSites(&j.A[i], &out)
		}
	}
	return out
}

func c11OtherType(r *common.Rand, old JV) JV {
	for {
		var v JV
		switch r.Intn(7) {
		case 0:
			v = jInt(1)
		case 1:
			v = jStr("x")
		case 2:
			v = jBool(true)
		case 3:
			v = jArr()
		case 4:
			v = jObj()
		case 5:
			v = jFrac("1.5")
		default:
			v = jArr(jInt(1))
		}
		if v.T != old.T {
			return v
		}
	}
}

func c11CorruptHex(r *common.Rand, p *JV) string {
	s := p.S
	switch r.Intn(5) {
	case 0:
		p.S = s[:len(s)-1]
		return "hex-short"
	case 1:
		p.S = s + "0"
		return "hex-long"
	case 2:
		b := []byte(s)
		for i := range b {
			if b[i] >= 'a' && b[i] <= 'f' {
				b[i] -= 32
				p.S = string(b)
				return "hex-upper"
			}
		}
		b[r.Intn(len(b))] = 'A'
		p.S = string(b)
		return "hex-upper"
	case 3:
		b := []byte(s)
		b[r.Intn(len(b))] = common.Pick(r, []byte("gz/:G @`"))
		p.S = string(b)
		return "hex-nonhex"
	default:
		// same byte length, one two-byte character: len() still 64
		p.S = s[:len(s)-2] + "é"
		return "hex-multibyte"
	}
}

// c11Corrupt applies one corruption and names it; "" if the chosen site has none
func c11Corrupt(r *common.Rand, label string, j *JV) string {
	sites := c11Sites(label, j)
	s := sites[r.Intn(len(sites))]
	p := s.p
	if r.Chance(18) && s.role != "msg" {
		if r.Chance(25) {
			*p = jNull()
			return "null-in-place"
		}
		*p = c11OtherType(r, *p)
		return "wrong-type"
	}
	switch s.role {
	case "msg":
		switch r.Intn(3) {
		case 0:
			p.A = p.A[:len(p.A)-1]
			return "arity-short"
		case 1:
			p.A = append(p.A, p.A[len(p.A)-1])
			if label == "REQ" || label == "COUNT" {
				return "" // one more filter is still well-formed
			}
			return "arity-long"
		default:
			p.A = append(p.A, jStr("extra"))
			return "arity-long"
		}
	case "label":
		p.S = common.Pick(r, []string{"event", "EVENTS", "", "OK", "EOSE", "NOTICE", "Req", "CLOSED", "REQ "})
		return "bad-label"
	case "sub":
		*p = c11OtherType(r, *p)
		return "wrong-type"
	case "hex64", "hex128":
		return c11CorruptHex(r, p)
	case "kind":
		*p = common.Pick(r, []JV{jInt(-1), jInt(65536), jInt(70000), jInt(-5), jFrac("1.5"), jFrac("1.0"), jFrac("1e3"),
			jIntLit(false, "9223372036854775808"), jIntLit(false, "4294967296")})
		if p.T == 'f' {
			return "int-fraction"
		}
		return "kind-range"
	case "time":
		*p = common.Pick(r, []JV{jFrac("1.5"), jFrac("1700000000.0"), jFrac("1e9"), jIntLit(false, "9223372036854775808"), jStr("1700000000")})
		return "int-fraction"
	case "nonneg":
		*p = common.Pick(r, []JV{jInt(-1), jInt(-1700000000), jFrac("1.5"), jFrac("10.0"), jIntLit(false, "9223372036854775808")})
		if p.T == 'f' {
			return "int-fraction"
		}
		if p.Neg {
			return "negative-" + s.key
		}
		return "int-range"
	case "content":
		*p = c11OtherType(r, *p)
		return "wrong-type"
	case "tags":
		switch r.Intn(3) {
		case 0:
			p.A = append(p.A, jArr())
			return "empty-tag"
		case 1:
			p.A = append(p.A, jStrs("", "v"))
			return "empty-tag-name"
		default:
			p.A = append(p.A, jArr(jStr("e"), jInt(1)))
			return "tag-nonstring"
		}
	case "tag":
		switch r.Intn(3) {
		case 0:
			p.A = nil
			return "empty-tag"
		case 1:
			p.A[0] = jStr("")
			return "empty-tag-name"
		default:
			p.A = append(p.A, jNull())
			return "tag-nonstring"
		}
	case "event":
		switch r.Intn(4) {
		case 0:
			i := r.Intn(len(p.O))
			p.O = append(p.O[:i:i], p.O[i+1:]...)
			return "missing-member"
		case 1:
			p.O = append(p.O, JMember{common.Pick(r, []string{"x", "ID", "ots", ""}), jStr("v")})
			return "extra-member"
		case 2:
			i := r.Intn(len(p.O))
			p.O[i].K = strings.ToUpper(p.O[i].K)
			return "upper-member-name"
		default:
			i := r.Intn(len(p.O))
			p.O = append(p.O, p.O[i])
			return "dup-member" // an exact duplicate member: not claimed either way
		}
	case "filter":
		switch r.Intn(4) {
		case 0:
			p.O = append(p.O, JMember{common.Pick(r, []string{"search", "x", "IDs", "Since", "id", "kind", ""}), jArr()})
			return "unknown-key"
		case 1:
			p.O = append(p.O, JMember{common.Pick(r, []string{"#ee", "#", "#1", "#é", "#_", "# e", "##"}), jStrs("v")})
			return "bad-tag-key"
		case 2:
			// since > until
			keep := []JMember{}
			for _, m := range p.O {
				if m.K != "since" && m.K != "until" {
					keep = append(keep, m)
				}
			}
			p.O = append(keep, JMember{"since", jInt(10)}, JMember{"until", jInt(9)})
			return "since-after-until"
		default:
			return ""
		}
	case "hexarr":
		p.A = append(p.A, jStr("zz"))
		return "hex-nonhex"
	case "kinds-arr":
		p.A = append(p.A, jStr("1"))
		return "wrong-type"
	case "strarr":
		p.A = append(p.A, common.Pick(r, []JV{jInt(1), jNull(), jArr()}))
		return "wrong-type"
	case "naddr":
		pk := c11Hex(r, 64)
		p.S = common.Pick(r, []string{"65536:" + pk + ":d", "-1:" + pk + ":d", "30000:" + pk, "30000:" + pk[:63] + ":d",
			"30000:" + strings.ToUpper(pk[:1]) + "A" + pk[2:] + ":d", ":" + pk + ":d", "x:" + pk + ":d", "30000", "",
			"1.5:" + pk + ":d", "99999999999999999999:" + pk + ":d", " 1:" + pk + ":d"})
		return "bad-naddr"
	}
	return ""
}

func c11Shuffle(r *common.Rand, j *JV) { c10Shuffle(r, j) }

func c11GenAdmit(r *common.Rand) c11Case {
	label, j := c11WfMsg(r)
	cls := "wf"
	if r.Chance(62) {
		if name := c11Corrupt(r, label, &j); name != "" {
			cls = "corrupt:" + name
		}
	}
	if r.Chance(50) {
		c11Shuffle(r, &j)
	}
	ps := &printStyle{r: r, ws: []int{0, 10, 40}[r.Intn(3)], esc: []int{0, 0, 8}[r.Intn(3)]}
	if cls == "wf" && r.Chance(12) {
		ps.lead = true
		cls = "wf:leading-ws"
	}
	return c11Admit(cls, ps.print(j))
}

// ---- values built directly -----------------------------------------------------

func c11XEvent(r *common.Rand) *XEvent {
	tags := []*[]HStr{}
	nt := r.Intn(3)
	for i := 0; i < nt; i++ {
		t := hs([]string{common.Pick(r, []string{"e", "p", "t", "d"}), common.Pick(r, c11Ds)})
		tags = append(tags, &t)
	}
	return &XEvent{ID: HStr(c11Hex(r, 64)), PK: HStr(c11Hex(r, 64)), TS: common.Pick(r, c11Times), Kind: common.Pick(r, c11Kinds),
		Tags: &tags, Content: HStr(common.Pick(r, c11Contents)), Sig: HStr(c11Hex(r, 128))}
}

func c11XFilter(r *common.Rand) *XFilter {
	f := &XFilter{}
	if r.Bool() {
		v := hs([]string{c11Hex(r, 64)})
		if r.Chance(25) { // the same id twice, and another one after it
			v = append(v, v[0], HStr(c11Hex(r, 64)))
		}
		f.IDs = &v
	}
	if r.Bool() {
		v := hs([]string{c11Hex(r, 64), c11Hex(r, 64)})
		if r.Chance(25) {
			v = append([]HStr{v[0]}, v...)
		}
		f.Authors = &v
	}
	if r.Bool() {
		v := []int64{common.Pick(r, c11Kinds)}
		if r.Chance(25) { // a repeated kind next to others (a list that is sorted or compacted in place shows it)
			v = append(v, common.Pick(r, c11Kinds), v[0])
		}
		f.Kinds = &v
	}
	if r.Bool() {
		tcs := []XTagCond{}
		if r.Bool() {
			v := hs([]string{c11Hex(r, 64)})
			tcs = append(tcs, XTagCond{K: "e", V: &v})
		}
		if r.Bool() {
			v := hs([]string{c11Naddr1(r)})
			tcs = append(tcs, XTagCond{K: "a", V: &v})
		}
		if r.Bool() {
			v := hs([]string{"anything"})
			tcs = append(tcs, XTagCond{K: "t", V: &v})
		}
		f.Tags = &tcs
	}
	if r.Bool() {
		f.Since = common.Ptr(int64(5))
	}
	if r.Bool() {
		f.Until = common.Ptr(int64(7))
	}
	if r.Bool() {
		f.Limit = common.Ptr(int64(r.Intn(3)))
	}
	return f
}

var c11BadBytes = []string{"é", "\xff", "\xc3", "０", "\x00", "\xe2\x82\xac", "F", "g"}

func c11CorruptHexBytes(r *common.Rand, s HStr) HStr {
	b := string(s)
	bad := common.Pick(r, c11BadBytes)
	if len(bad) <= len(b) && r.Chance(70) {
		return HStr(b[:len(b)-len(bad)] + bad) // same byte length
	}
	return HStr(b + bad)
}

func c11GenValid(r *common.Rand) c11Case {
	t := common.Pick(r, clientTypes)
	v := XVal{T: t}
	cls := "value:wf"
	switch t {
	case "cevent", "cauth":
		v.E = c11XEvent(r)
	case "cclose":
		v.Sub = HStr(common.Pick(r, c11Subs))
	default:
		v.Sub = HStr(common.Pick(r, c11Subs))
		n := 1 + r.Intn(2)
		for i := 0; i < n; i++ {
			v.Fs = append(v.Fs, c11XFilter(r))
		}
	}
	if r.Chance(65) {
		switch {
		case v.E != nil:
			switch r.Intn(9) {
			case 0:
				v.E.Tags = nil
				cls = "value:nil-tags"
			case 1:
				tg := append(*v.E.Tags, nil)
				v.E.Tags = &tg
				cls = "value:nil-tag"
			case 2:
				e := []HStr{}
				tg := append(*v.E.Tags, &e)
				v.E.Tags = &tg
				cls = "value:empty-tag"
			case 3:
				v.E = nil
				cls = "value:nil-event"
			case 4:
				v.E.ID = c11CorruptHexBytes(r, v.E.ID)
				cls = "value:bad-hex-bytes"
			case 5:
				v.E.Sig = c11CorruptHexBytes(r, v.E.Sig)
				cls = "value:bad-hex-bytes"
			case 6:
				v.E.Kind = common.Pick(r, []int64{-1, 65536, 70000, -5, -9223372036854775808, 9223372036854775807})
				cls = "value:kind-range"
			case 7:
				e := hs([]string{"", "x"})
				tg := append(*v.E.Tags, &e)
				v.E.Tags = &tg
				cls = "value:empty-tag-name"
			default:
				v.E.PK = ""
				cls = "value:empty-hex"
			}
		case len(v.Fs) > 0:
			f := v.Fs[r.Intn(len(v.Fs))]
			switch r.Intn(10) {
			case 0:
				v.Fs[0] = nil
				cls = "value:nil-filter"
			case 1:
				v.Fs = nil
				cls = "value:no-filters"
			case 2:
				tcs := []XTagCond{{K: "t", V: nil}}
				f.Tags = &tcs
				cls = "value:nil-tag-values"
			case 3:
				vv := hs([]string{"v"})
				tcs := []XTagCond{{K: HStr(common.Pick(r, []string{"ee", "", "1", "é", "_"})), V: &vv}}
				f.Tags = &tcs
				cls = "value:bad-tag-key"
			case 4:
				ks := []int64{1, common.Pick(r, []int64{-1, 65536, 70000, -5})}
				f.Kinds = &ks
				cls = "value:kind-range"
			case 5:
				f.Since, f.Until = common.Ptr(int64(8)), common.Ptr(int64(7))
				cls = "value:since-after-until"
			case 6:
				f.Limit = common.Ptr(int64(-1))
				cls = "value:negative"
			case 7:
				f.Since = common.Ptr(int64(-1))
				cls = "value:negative"
			case 8:
				ids := []HStr{c11CorruptHexBytes(r, HStr(c11Hex(r, 64)))}
				f.IDs = &ids
				cls = "value:bad-hex-bytes"
			default:
				vv := hs([]string{common.Pick(r, []string{"70000:" + c11Hex(r, 64) + ":d", "1:" + c11Hex(r, 64) + ":a:b", "1:" + c11Hex(r, 63) + ":d", "+1:" + c11Hex(r, 64) + ":"})})
				tcs := []XTagCond{{K: "a", V: &vv}}
				f.Tags = &tcs
				cls = "value:naddr"
			}
		}
	}
	return c11Valid(cls, v)
}

func c11GenNaddr(r *common.Rand) c11Case {
	pk := c11Hex(r, 64)
	k := common.Pick(r, []string{"0", "1", "30000", "65535", "65536", "70000", "-1", "-0", "+5", "007", "", "x", "1x",
		"99999999999999999999", "9223372036854775807", "9223372036854775808", "-9223372036854775808", "1.5", " 1", "1 ", "+", "-", "1_0", "٣"})
	p := common.Pick(r, []string{pk, pk, pk, pk[:63], pk + "0", strings.ToUpper(pk), "", pk[:62] + "é", pk[:63] + "g"})
	d := common.Pick(r, []string{"", "x", "x:y", ":", "::", "a:b:c:d", "日本"})
	var s string
	switch r.Intn(8) {
	case 0:
		s = k + ":" + p
	case 1:
		s = k
	default:
		s = k + ":" + p + ":" + d
	}
	return c11Naddr1Case(s)
}

func c11Naddr1Case(s string) c11Case {
	cls := "naddr"
	if strings.Count(s, ":") > 2 {
		cls = "naddr:colon-in-d"
	}
	return c11Naddr(cls, s)
}

var c11KindProbe = []int64{-9223372036854775808, -70000, -5, -2, -1, 0, 1, 2, 3, 5, 1000, 10000, 20000, 30000, 40000, 65534, 65535,
	65536, 65537, 70000, 1 << 31, 1 << 32, 9223372036854775807}

// ---- sub-command -------------------------------------------------------------

func c11Replay(raw json.RawMessage) c11Case {
	var c c11Case
	if err := json.Unmarshal(raw, &c); err != nil {
		common.Fatalf("bad replay case: %v", err)
	}
	switch c.K {
	case "valid":
		if c.V == nil {
			common.Fatalf("valid case without value")
		}
		return c11Valid(c.Cls, *c.V)
	case "naddr":
		if c.S == nil {
			common.Fatalf("naddr case without string")
		}
		return c11Naddr(c.Cls, string(*c.S))
	case "kind":
		if c.Kind == nil {
			common.Fatalf("kind case without number")
		}
		return c11Kind(*c.Kind)
	default:
		var text []byte
		if c.Text != "" || c.J == nil {
			text = unhex(c.Text)
		} else {
			ps := &printStyle{lead: c.Lead, labelEsc: c.Esc}
			text = ps.print(*c.J)
		}
		return c11Admit(c.Cls, text)
	}
}

func init() {
	subcmds["c11"] = func(seed uint64, n int, out *common.Out, replay string) {
		if replay != "" {
			for _, raw := range common.ReadLines(replay) {
				out.Emit(c11Replay(raw))
			}
			return
		}
		root := common.NewRand(seed)
		for i := 0; i < n; i++ {
			r := root.Fork(uint64(i))
			switch k := i % 20; {
			case k < 14:
				out.Emit(c11GenAdmit(r))
			case k < 17:
				out.Emit(c11GenValid(r))
			case k < 19:
				out.Emit(c11GenNaddr(r))
			default:
				out.Emit(c11Kind(c11KindProbe[(i/20)%len(c11KindProbe)]))
			}
		}
	}
}
