package main

// Driver shared by c08 and c09: the REAL mocrelay.NewMergeHandler with n scripted
// children under harness control.
//
// A scripted child is a Handler that (a) reports every client message it
// receives to the harness and (b) emits a server message when the harness
// tells it to.  The harness keeps exactly one message in flight:
//
//   client step:  the message is written to the merged handler's recv channel;
//                 the step is over when every child has reported it (the
//                 session updates its state before it broadcasts) ...
//   child step:   child i is told to emit the message ...
//   ... and then, in both cases, a sentinel NOTICE is emitted (by the same
//   child for a child step, by child 0 for a client step).  Each child's
//   output passes through one forwarder goroutine and then through the single
//   handleSend loop, in order, and a NOTICE is always forwarded; so when the
//   sentinel arrives on the client side, everything the step could produce has
//   been produced.  What arrived before the sentinel is the step's observation
//   (zero messages when the session dropped the child's message).
//
// Every interleaving of child outputs with each other and with client input is
// therefore chosen by the case, not by the scheduler.
//
// Several sessions of ONE handler value (the deployment: one MergeHandler
// serves every connection): a case with "sessions": k > 1 calls ServeNostr k
// times on the same handler before the first step; every step carries the
// session ("s") it belongs to, a scripted child has one port per session (it
// learns the session of a ServeNostr call from a context value, which the merge
// handler hands down to its children), and the sentinel of a step travels
// through the step's session.  The steps of different sessions interleave as the
// case says.  When the steps are over, one more sentinel is pushed through every
// session: a message that comes out of a session without one of its own steps
// in flight shows up there at the latest (it is recorded as a failure of the run,
// if it did not already appear in front of a later step of that session).

import (
	"bufio"
	"bytes"
	"context"
	"encoding/json"
	"fmt"
	"os"
	"os/exec"
	"strings"
	"time"

	"github.com/high-moctane/mocrelay"
	"verif/harness/common"
)

type mMsg struct {
	T      string         `json:"t"` // eose | event | ok | count | notice | closed
	Sub    string         `json:"sub,omitempty"`
	E      *common.JEvent `json:"e,omitempty"`
	ID     string         `json:"id,omitempty"`
	Acc    bool           `json:"acc,omitempty"`
	P      string         `json:"p,omitempty"`
	Msg    string         `json:"msg,omitempty"`
	C      uint64         `json:"c,omitempty"`
	Approx *bool          `json:"approx,omitempty"`
}

type mStep struct {
	K   string           `json:"k"`           // req | close | event | count | child
	S   int              `json:"s,omitempty"` // the session the step belongs to (cases with several sessions)
	Sub string           `json:"sub,omitempty"`
	Fs  []common.JFilter `json:"fs,omitempty"`
	ID  string           `json:"id,omitempty"`
	I   int              `json:"i,omitempty"`
	M   *mMsg            `json:"m,omitempty"`
	// Early (child steps that directly follow a client step of the same session, I >= 1): the child emits
	// its message while the broadcast of that client message has reached only the children before it, i.e.
	// after the session has taken the client message and before this child has seen it.  The session does
	// its bookkeeping before it broadcasts, so the outcome is that of the two steps one after the other.
	// Join (child steps followed by a child step of the same child and session, not Early): the child emits
	// this message and the next step's one after the other with no sentinel in between; whatever comes out is
	// recorded at the last step of such a run (the steps before it record nothing)
	Join  bool `json:"join,omitempty"`
	Early bool `json:"early,omitempty"`
	// EarlyRan (observation): the child did emit before it took the client message
	EarlyRan bool   `json:"early_ran,omitempty"`
	Out      []mMsg `json:"out"`
}

type mCase struct {
	N int `json:"n"`
	// Nest = k >= 2 (and k < n): the first k children are wrapped in a merge handler of their own,
	// NewMergeHandler(NewMergeHandler(c0..c(k-1)), ck, ...): judged as the flat handler over the n children is
	// (first rejecting child in the order c0..c(n-1), maximum count, one reply when the last child has answered)
	Nest int `json:"nest,omitempty"`
	// Block = k > 0 (single session): the steps from k on are child steps; they are not run one at a time: every
	// child emits its messages (in their order) from a goroutine of its own while the client does not read for
	// 100 ms; then the client reads until every child's final sentinel has arrived.  Whatever came out is recorded
	// at the last step.  A client that reads late must still get every reply.
	Block int     `json:"block,omitempty"`
	Sess  int     `json:"sessions,omitempty"` // sessions of the one handler value; 0 and 1: a single session
	Steps []mStep `json:"steps"`
	Fail  string  `json:"fail,omitempty"` // panic / hang / protocol failure of the run, "" when clean
}

func (m *mMsg) toServer() mocrelay.ServerMsg {
	switch m.T {
	case "eose":
		return mocrelay.NewServerEOSEMsg(m.Sub)
	case "event":
		return mocrelay.NewServerEventMsg(m.Sub, m.E.ToEvent())
	case "ok":
		return mocrelay.NewServerOKMsg(m.ID, m.Acc, m.P, m.Msg)
	case "count":
		return mocrelay.NewServerCountMsg(m.Sub, m.C, m.Approx)
	case "notice":
		return mocrelay.NewServerNoticeMsg(m.Msg)
	case "closed":
		return mocrelay.NewServerClosedMsg(m.Sub, m.P, m.Msg)
	}
	panic("harness: unknown server message kind " + m.T)
}

func fromServer(s mocrelay.ServerMsg) mMsg {
	switch v := s.(type) {
	case *mocrelay.ServerEOSEMsg:
		return mMsg{T: "eose", Sub: v.SubscriptionID}
	case *mocrelay.ServerEventMsg:
		e := common.FromEvent(v.Event)
		return mMsg{T: "event", Sub: v.SubscriptionID, E: &e}
	case *mocrelay.ServerOKMsg:
		return mMsg{T: "ok", ID: v.EventID, Acc: v.Accepted, P: v.MsgPrefix, Msg: v.Msg}
	case *mocrelay.ServerCountMsg:
		var a *bool
		if v.Approximate != nil {
			a = common.Ptr(*v.Approximate)
		}
		return mMsg{T: "count", Sub: v.SubscriptionID, C: v.Count, Approx: a}
	case *mocrelay.ServerNoticeMsg:
		return mMsg{T: "notice", Msg: v.Message}
	case *mocrelay.ServerClosedMsg:
		return mMsg{T: "closed", Sub: v.SubscriptionID, P: v.MsgPrefix, Msg: v.Msg}
	}
	return mMsg{T: fmt.Sprintf("unknown:%T", s)}
}

func (st *mStep) toClient() mocrelay.ClientMsg {
	switch st.K {
	case "req":
		fs := common.ToFilters(st.Fs)
		if fs == nil {
			fs = []*mocrelay.ReqFilter{}
		}
		return &mocrelay.ClientReqMsg{SubscriptionID: st.Sub, ReqFilters: fs}
	case "close":
		return &mocrelay.ClientCloseMsg{SubscriptionID: st.Sub}
	case "event":
		return &mocrelay.ClientEventMsg{Event: &mocrelay.Event{ID: st.ID, Pubkey: "pk", CreatedAt: 1, Kind: 1,
			Tags: []mocrelay.Tag{}, Content: "", Sig: "sig"}}
	case "count":
		return &mocrelay.ClientCountMsg{SubscriptionID: st.Sub, ReqFilters: []*mocrelay.ReqFilter{{}}}
	}
	panic("harness: unknown client step " + st.K)
}

// scriptChild: a Handler under harness control, with one port per session.
type scriptPort struct {
	cmd chan []mocrelay.ServerMsg // harness -> child: emit these, in order
	got chan mocrelay.ClientMsg   // child -> harness: received this from the session
}

type scriptChild struct {
	ports []scriptPort
}

// mergeSessKey: context key under which runMerge announces the session number
// of a ServeNostr call to the scripted children.
type mergeSessKey struct{}

func (c *scriptChild) ServeNostr(ctx context.Context, send chan<- mocrelay.ServerMsg, recv <-chan mocrelay.ClientMsg) error {
	k, _ := ctx.Value(mergeSessKey{}).(int)
	if k < 0 || k >= len(c.ports) {
		return fmt.Errorf("scripted child: unknown session %d", k)
	}
	p := c.ports[k]
	for {
		select {
		case <-ctx.Done():
			return nil
		case m, ok := <-recv:
			if !ok {
				return nil
			}
			select {
			case p.got <- m:
			case <-ctx.Done():
				return nil
			}
		case ms := <-p.cmd:
			for _, m := range ms {
				select {
				case send <- m:
				case <-ctx.Done():
					return nil
				}
			}
		}
	}
}

const mergeStepTimeout = 5 * time.Second

// runMerge executes the case on the real merge handler and fills in Out/Fail.
func runMerge(c *mCase) {
	for i := range c.Steps {
		c.Steps[i].Out = []mMsg{}
		c.Steps[i].EarlyRan = false
	}
	c.Fail = ""
	defer func() {
		if r := recover(); r != nil {
			c.Fail = fmt.Sprintf("panic: %v", r)
		}
	}()

	nsess := c.Sess
	if nsess < 1 {
		nsess = 1
	}
	if nsess > 16 {
		c.Fail = "bad case: too many sessions"
		return
	}
	children := make([]*scriptChild, c.N)
	hs := make([]mocrelay.Handler, c.N)
	for i := range children {
		children[i] = &scriptChild{ports: make([]scriptPort, nsess)}
		for k := range children[i].ports {
			children[i].ports[k] = scriptPort{cmd: make(chan []mocrelay.ServerMsg), got: make(chan mocrelay.ClientMsg)}
		}
		hs[i] = children[i]
	}
	if c.Nest >= 2 && c.Nest < c.N {
		hs = append([]mocrelay.Handler{mocrelay.NewMergeHandler(hs[:c.Nest]...)}, hs[c.Nest:]...)
	}
	h := mocrelay.NewMergeHandler(hs...) // panics for fewer than two handlers: recorded above

	ctx, cancel := context.WithCancel(context.Background())
	sends := make([]chan mocrelay.ServerMsg, nsess)
	recvs := make([]chan mocrelay.ClientMsg, nsess)
	dones := make([]chan string, nsess)
	for k := 0; k < nsess; k++ {
		sends[k] = make(chan mocrelay.ServerMsg)
		recvs[k] = make(chan mocrelay.ClientMsg)
		dones[k] = make(chan string, 1)
		go func(k int) {
			defer func() {
				if r := recover(); r != nil {
					dones[k] <- fmt.Sprintf("panic in ServeNostr: %v", r)
				}
			}()
			h.ServeNostr(context.WithValue(ctx, mergeSessKey{}, k), sends[k], recvs[k])
			dones[k] <- ""
		}(k)
	}
	defer func() {
		cancel()
		for k := 0; k < nsess; k++ {
			select {
			case msg := <-dones[k]:
				if msg != "" && c.Fail == "" {
					c.Fail = msg
				}
			case <-time.After(mergeStepTimeout):
				if c.Fail == "" {
					c.Fail = "hang: the session did not end after its context was cancelled"
				}
			}
		}
	}()

	// collect reads the client side of session k until the sentinel arrives.
	collect := func(k int, st *mStep, sentinel mocrelay.ServerMsg) bool {
		timer := time.NewTimer(mergeStepTimeout)
		defer timer.Stop()
		for {
			select {
			case m := <-sends[k]:
				if m == sentinel {
					return true
				}
				st.Out = append(st.Out, fromServer(m))
			case msg := <-dones[k]:
				c.Fail = "session ended early: " + msg
				dones[k] <- msg
				return false
			case <-timer.C:
				c.Fail = "hang: sentinel did not arrive"
				return false
			}
		}
	}
	tell := func(k, i int, ms []mocrelay.ServerMsg) bool {
		select {
		case children[i].ports[k].cmd <- ms:
			return true
		case <-time.After(mergeStepTimeout):
			c.Fail = fmt.Sprintf("hang: child %d does not take commands", i)
			return false
		}
	}

	skip := -1
	for k := range c.Steps {
		st := &c.Steps[k]
		if k <= skip {
			continue // ran together with the step before it
		}
		if st.S < 0 || st.S >= nsess {
			c.Fail = "bad case: session index out of range"
			return
		}
		if c.Block > 0 && k == c.Block && nsess == 1 {
			per := make([][]mocrelay.ServerMsg, c.N)
			for j := k; j < len(c.Steps); j++ {
				b := &c.Steps[j]
				if b.K != "child" || b.I < 0 || b.I >= c.N || b.M == nil {
					c.Fail = "bad case: the block must consist of child steps"
					return
				}
				per[b.I] = append(per[b.I], b.M.toServer())
			}
			ends := map[mocrelay.ServerMsg]bool{}
			errs := make(chan string, c.N)
			for i := range per {
				if len(per[i]) == 0 {
					continue
				}
				end := mocrelay.ServerMsg(mocrelay.NewServerNoticeMsg(fmt.Sprintf("\x00block end %d", i)))
				ends[end] = true
				go func(i int, ms []mocrelay.ServerMsg) {
					select {
					case children[i].ports[0].cmd <- ms:
						errs <- ""
					case <-time.After(4 * mergeStepTimeout):
						errs <- fmt.Sprintf("hang: child %d does not take commands", i)
					}
				}(i, append(per[i], end))
			}
			time.Sleep(100 * time.Millisecond) // the client is busy with something else
			last := &c.Steps[len(c.Steps)-1]
			timer := time.NewTimer(4 * mergeStepTimeout)
			for left := len(ends); left > 0; {
				select {
				case m := <-sends[0]:
					if ends[m] {
						left--
					} else {
						last.Out = append(last.Out, fromServer(m))
					}
				case msg := <-dones[0]:
					c.Fail = "session ended early: " + msg
					dones[0] <- msg
					return
				case <-timer.C:
					c.Fail = "hang: the replies of the block did not all arrive"
					return
				}
			}
			timer.Stop()
			for range ends {
				if e := <-errs; e != "" {
					c.Fail = e
					return
				}
			}
			break
		}
		sentinel := mocrelay.ServerMsg(mocrelay.NewServerNoticeMsg(fmt.Sprintf("\x00sentinel %d", k)))
		if st.K == "child" {
			if st.I < 0 || st.I >= c.N || st.M == nil {
				c.Fail = "bad case: child index out of range"
				return
			}
			// a run of joined steps is emitted in one go; its output is recorded at the last of them
			last := k
			msgs := []mocrelay.ServerMsg{st.M.toServer()}
			for nsess == 1 && c.Steps[last].Join && !c.Steps[last].Early && last+1 < len(c.Steps) {
				nx := &c.Steps[last+1]
				if nx.K != "child" || nx.Early || nx.I != st.I || nx.S != st.S || nx.M == nil {
					break
				}
				msgs = append(msgs, nx.M.toServer())
				last++
			}
			if !tell(st.S, st.I, append(msgs, sentinel)) {
				return
			}
			if !collect(st.S, &c.Steps[last], sentinel) {
				return
			}
			if last > skip {
				skip = last
			}
			continue
		}
		msg := st.toClient()
		select {
		case recvs[st.S] <- msg:
		case <-time.After(mergeStepTimeout):
			c.Fail = "hang: the session does not read client messages"
			return
		}
		// the session broadcasts in child order over unbuffered channels
		var early *mStep
		if k+1 < len(c.Steps) {
			if nx := &c.Steps[k+1]; nx.K == "child" && nx.Early && nx.S == st.S && nx.I >= 1 && nx.I < c.N && nx.M != nil {
				early = nx
			}
		}
		for i := range children {
			if early != nil && i == early.I {
				esent := mocrelay.ServerMsg(mocrelay.NewServerNoticeMsg(fmt.Sprintf("\x00sentinel %d", k+1)))
				injected, seen := false, false
				select {
				case children[i].ports[st.S].cmd <- []mocrelay.ServerMsg{early.M.toServer(), esent}:
					injected = true
				case g := <-children[i].ports[st.S].got:
					// the child took the client message first: the step runs in the ordinary way afterwards
					if g != msg {
						c.Fail = fmt.Sprintf("child %d received a different client message", i)
						return
					}
					seen = true
				case <-time.After(mergeStepTimeout):
					c.Fail = fmt.Sprintf("hang: child %d neither takes commands nor the client message", i)
					return
				}
				if !injected {
					early = nil
					if seen {
						continue
					}
				} else {
					// the child's output and the rest of the broadcast, in whatever order they come
					next, done := i, false
					timer := time.NewTimer(mergeStepTimeout)
					for !done || next < len(children) {
						var gotc chan mocrelay.ClientMsg
						if next < len(children) {
							gotc = children[next].ports[st.S].got
						}
						select {
						case m := <-sends[st.S]:
							if m == esent {
								done = true
							} else {
								early.Out = append(early.Out, fromServer(m))
							}
						case g := <-gotc:
							if g != msg {
								c.Fail = fmt.Sprintf("child %d received a different client message", next)
								return
							}
							next++
						case <-timer.C:
							c.Fail = "hang: early child message or broadcast did not complete"
							return
						}
					}
					timer.Stop()
					early.EarlyRan = true
					skip = k + 1
					break
				}
			}
			select {
			case g := <-children[i].ports[st.S].got:
				if g != msg {
					c.Fail = fmt.Sprintf("child %d received a different client message", i)
					return
				}
			case m := <-sends[st.S]:
				// nothing should come out before the broadcast is over
				st.Out = append(st.Out, fromServer(m))
				c.Fail = "output during a client broadcast"
				return
			case <-time.After(mergeStepTimeout):
				c.Fail = fmt.Sprintf("hang: child %d did not receive the client message", i)
				return
			}
		}
		if !tell(st.S, 0, []mocrelay.ServerMsg{sentinel}) {
			return
		}
		if !collect(st.S, st, sentinel) {
			return
		}
	}
	if nsess > 1 {
		// nothing may be waiting on a session that has no step in flight
		for k := 0; k < nsess; k++ {
			var extra mStep
			sentinel := mocrelay.ServerMsg(mocrelay.NewServerNoticeMsg(fmt.Sprintf("\x00final sentinel %d", k)))
			if !tell(k, 0, []mocrelay.ServerMsg{sentinel}) || !collect(k, &extra, sentinel) {
				return
			}
			if len(extra.Out) > 0 {
				b, _ := json.Marshal(extra.Out)
				c.Fail = fmt.Sprintf("session %d produced output while none of its steps was in flight: %s", k, b)
				return
			}
		}
	}
}

// mergeInterleave: single-session histories over the same number of children
// become one history of len(cs) sessions of ONE handler value.  The steps of a
// session keep their order; the sessions are interleaved at random, in runs of
// random length (so that both fine interleavings and "one session overtakes
// the other" occur).
func mergeInterleave(r *common.Rand, cs []mCase) mCase {
	out := mCase{N: cs[0].N, Sess: len(cs)}
	pos := make([]int, len(cs))
	for {
		var live []int
		for k := range cs {
			if pos[k] < len(cs[k].Steps) {
				live = append(live, k)
			}
		}
		if len(live) == 0 {
			return out
		}
		k := live[r.Intn(len(live))]
		run := 1
		if r.Chance(30) {
			run = 1 + r.Intn(4)
		}
		for ; run > 0 && pos[k] < len(cs[k].Steps); run-- {
			st := cs[k].Steps[pos[k]]
			st.S = k
			out.Steps = append(out.Steps, st)
			pos[k]++
		}
	}
}

// stripMergeOutputs removes recorded observations (replay mode reads inputs only).
func stripMergeOutputs(c *mCase) {
	c.Fail = ""
	for i := range c.Steps {
		c.Steps[i].Out = nil
	}
}

// ---- process isolation ---------------------------------------------------
//
// A panic inside one of the session's own goroutines (handleSend, handleRecv,
// a forwarder) cannot be recovered by the harness: it kills the process.  The
// cases are therefore executed by a worker process (this binary again, with
// MERGE_WORKER=1, cases on stdin, one result line per case on stdout, written
// as soon as the case is over).  When the worker dies, the case it was running
// is recorded with Fail = "crash: ..." and a new worker continues with the
// next case.

func mergeWorkerMode() bool { return os.Getenv("MERGE_WORKER") == "1" }

// mergeWorker: the worker side.
func mergeWorker() {
	in := bufio.NewScanner(os.Stdin)
	in.Buffer(make([]byte, 1<<20), 1<<28)
	w := bufio.NewWriter(os.Stdout)
	for in.Scan() {
		if len(in.Bytes()) == 0 {
			continue
		}
		var c mCase
		if err := json.Unmarshal(in.Bytes(), &c); err != nil {
			common.Fatalf("worker: bad case: %v", err)
		}
		stripMergeOutputs(&c)
		runMerge(&c)
		b, _ := json.Marshal(c)
		w.Write(b)
		w.WriteByte('\n')
		w.Flush()
	}
}

// runMergeAll runs the cases in worker processes and returns them with their
// observations filled in.
func runMergeAll(sub string, cases []mCase) []mCase {
	res := make([]mCase, 0, len(cases))
	start := 0
	for start < len(cases) {
		cmd := exec.Command(os.Args[0], sub, "-out", os.DevNull)
		cmd.Env = append(os.Environ(), "MERGE_WORKER=1")
		var input bytes.Buffer
		for i := start; i < len(cases); i++ {
			c := cases[i]
			stripMergeOutputs(&c)
			b, _ := json.Marshal(c)
			input.Write(b)
			input.WriteByte('\n')
		}
		cmd.Stdin = &input
		var stderr bytes.Buffer
		cmd.Stderr = &stderr
		stdout, err := cmd.StdoutPipe()
		if err != nil {
			common.Fatalf("cannot start worker: %v", err)
		}
		if err := cmd.Start(); err != nil {
			common.Fatalf("cannot start worker: %v", err)
		}
		sc := bufio.NewScanner(stdout)
		sc.Buffer(make([]byte, 1<<20), 1<<28)
		got := 0
		for sc.Scan() {
			var c mCase
			if err := json.Unmarshal(sc.Bytes(), &c); err != nil {
				break
			}
			res = append(res, c)
			got++
		}
		werr := cmd.Wait()
		start += got
		if start >= len(cases) {
			break
		}
		// the worker died while running cases[start]
		c := cases[start]
		stripMergeOutputs(&c)
		for i := range c.Steps {
			c.Steps[i].Out = []mMsg{}
		}
		msg := strings.TrimSpace(stderr.String())
		if k := strings.IndexByte(msg, '\n'); k >= 0 {
			msg = msg[:k]
		}
		if msg == "" && werr != nil {
			msg = werr.Error()
		}
		c.Fail = "crash: " + msg
		res = append(res, c)
		start++
	}
	return res
}
