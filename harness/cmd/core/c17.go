package main

// C17 (and the session driver shared with C18): the REAL middlewares of
// handler.go driven through the real concurrent wrapper NewSimpleMiddleware.
//
// A session is one call of Handler.ServeNostr on (middleware stack)(recording
// downstream handler).  The harness feeds ONE message at a time:
//
//   client op:  the message is written to the session's recv channel, then a
//               sentinel CLOSE (reserved subscription id) which every
//               middleware forwards.  When the downstream handler receives
//               the sentinel it emits a sentinel NOTICE; the harness reads
//               the client side until that NOTICE arrives.  Because every
//               wrapper's receive loop and send loop are sequential, all
//               effects of the message (forward to the handler, or reply to
//               the client) precede the sentinel on both paths.
//   server op:  the downstream handler emits the scripted message followed by
//               the sentinel NOTICE.
//   start op:   a new connection on the SAME handler value begins in the slot
//               (a new call of ServeNostr); the op returns after a sentinel
//               round trip, i.e. when ServeNostrStart of every wrapper has run.
//   end op:     the slot's connection ends (context cancelled); the op returns
//               when ServeNostr has returned, i.e. after ServeNostrEnd of every
//               wrapper.  Whatever the connection left open stays open.
//
// Observed per op: the client messages that reached the downstream handler
// and the server messages that reached the client, in order (nothing for
// start / end, and nothing for an op addressed to a slot without connection).

import (
	"context"
	"encoding/json"
	"fmt"
	"math"
	"reflect"
	"sort"
	"sync"
	"time"

	"github.com/high-moctane/mocrelay"
	"verif/harness/common"
)

// ---------------------------------------------------------------- JSON shapes

type mwEvent struct {
	ID      string     `json:"id"`
	PK      string     `json:"pk"`
	DTS     int64      `json:"dts"`           // input: created_at relative to the origin
	Org     string     `json:"org,omitempty"` // origin of dts: "" the run's clock, "epoch" 0 (dts is absolute), "wrap" math.MinInt64 + clock
	TS      int64      `json:"ts"`            // filled at run time: origin + dts
	Kind    int64      `json:"kind"`
	Tags    [][]string `json:"tags"`
	Content string     `json:"content"`
	Sig     string     `json:"sig"`
}

type mwCMsg struct {
	T   string           `json:"t"` // EVENT REQ CLOSE AUTH COUNT
	Sub string           `json:"sub,omitempty"`
	Fs  []common.JFilter `json:"fs,omitempty"`
	E   *mwEvent         `json:"e,omitempty"`
}

type mwSMsg struct {
	T      string   `json:"t"` // EOSE EVENT NOTICE OK AUTH COUNT CLOSED
	Sub    string   `json:"sub,omitempty"`
	ID     string   `json:"id,omitempty"`
	Acc    bool     `json:"acc,omitempty"`
	Prefix string   `json:"prefix,omitempty"`
	Msg    string   `json:"msg,omitempty"`
	E      *mwEvent `json:"e,omitempty"`
	Count  uint64   `json:"count,omitempty"`
	Approx *bool    `json:"approx,omitempty"`
}

type mwSpec struct {
	T    string           `json:"t"`
	N    int64            `json:"n,omitempty"`
	From int64            `json:"from,omitempty"`
	To   int64            `json:"to,omitempty"`
	Fs   []common.JFilter `json:"fs,omitempty"`
}

type mwOp struct {
	S int     `json:"s"` // connection slot
	D string  `json:"d"` // "c" client message, "s" server message, "start" / "end" of a connection in the slot
	C *mwCMsg `json:"c,omitempty"`
	M *mwSMsg `json:"m,omitempty"`
}

type mwObs struct {
	Down    []mwCMsg `json:"down"`
	Client  []mwSMsg `json:"client"`
	Timeout bool     `json:"timeout,omitempty"`
}

const mwSentinel = "\x00#verif-sentinel"

var mwTimeouts int // sentinel round trips that timed out in this run

// ---------------------------------------------------------------- conversions

func (e *mwEvent) toEvent(now int64) *mocrelay.Event {
	switch e.Org {
	case "epoch":
		e.TS = e.DTS
	case "wrap": // now - created_at = MaxInt64 + 1 - dts: the int64 difference wraps for dts <= 0
		e.TS = math.MinInt64 + now + e.DTS
	default:
		e.TS = now + e.DTS
	}
	tags := make([]mocrelay.Tag, len(e.Tags))
	for i, t := range e.Tags {
		tags[i] = mocrelay.Tag(append([]string{}, t...))
	}
	return &mocrelay.Event{ID: e.ID, Pubkey: e.PK, CreatedAt: e.TS, Kind: e.Kind, Tags: tags, Content: e.Content, Sig: e.Sig}
}

func mwFromEvent(e *mocrelay.Event, now int64) *mwEvent {
	if e == nil {
		return nil
	}
	tags := make([][]string, len(e.Tags))
	for i, t := range e.Tags {
		tags[i] = append([]string{}, t...)
	}
	return &mwEvent{ID: e.ID, PK: e.Pubkey, DTS: e.CreatedAt - now, TS: e.CreatedAt, Kind: e.Kind, Tags: tags, Content: e.Content, Sig: e.Sig}
}

func mwFromFilter(f *mocrelay.ReqFilter) common.JFilter {
	var j common.JFilter
	if f == nil {
		return j
	}
	if f.IDs != nil {
		v := append([]string{}, f.IDs...)
		j.IDs = &v
	}
	if f.Authors != nil {
		v := append([]string{}, f.Authors...)
		j.Authors = &v
	}
	if f.Kinds != nil {
		v := append([]int64{}, f.Kinds...)
		j.Kinds = &v
	}
	if f.Tags != nil {
		tcs := []common.JTagCond{}
		for k, v := range f.Tags {
			tcs = append(tcs, common.JTagCond{Name: k, Vals: append([]string{}, v...)})
		}
		sort.Slice(tcs, func(a, b int) bool { return tcs[a].Name < tcs[b].Name })
		j.Tags = &tcs
	}
	if f.Since != nil {
		j.Since = common.Ptr(*f.Since)
	}
	if f.Until != nil {
		j.Until = common.Ptr(*f.Until)
	}
	if f.Limit != nil {
		j.Limit = common.Ptr(*f.Limit)
	}
	return j
}

func mwFromFilters(fs []*mocrelay.ReqFilter) []common.JFilter {
	out := make([]common.JFilter, len(fs))
	for i, f := range fs {
		out[i] = mwFromFilter(f)
	}
	return out
}

func (m *mwCMsg) toMsg(now int64) mocrelay.ClientMsg {
	switch m.T {
	case "EVENT":
		return &mocrelay.ClientEventMsg{Event: m.E.toEvent(now)}
	case "REQ":
		return &mocrelay.ClientReqMsg{SubscriptionID: m.Sub, ReqFilters: common.ToFilters(m.Fs)}
	case "CLOSE":
		return &mocrelay.ClientCloseMsg{SubscriptionID: m.Sub}
	case "AUTH":
		return &mocrelay.ClientAuthMsg{Event: m.E.toEvent(now)}
	case "COUNT":
		return &mocrelay.ClientCountMsg{SubscriptionID: m.Sub, ReqFilters: common.ToFilters(m.Fs)}
	}
	common.Fatalf("bad client message type %q", m.T)
	return nil
}

func mwFromCMsg(m mocrelay.ClientMsg, now int64) mwCMsg {
	switch m := m.(type) {
	case *mocrelay.ClientEventMsg:
		return mwCMsg{T: "EVENT", E: mwFromEvent(m.Event, now)}
	case *mocrelay.ClientReqMsg:
		return mwCMsg{T: "REQ", Sub: m.SubscriptionID, Fs: mwFromFilters(m.ReqFilters)}
	case *mocrelay.ClientCloseMsg:
		return mwCMsg{T: "CLOSE", Sub: m.SubscriptionID}
	case *mocrelay.ClientAuthMsg:
		return mwCMsg{T: "AUTH", E: mwFromEvent(m.Event, now)}
	case *mocrelay.ClientCountMsg:
		return mwCMsg{T: "COUNT", Sub: m.SubscriptionID, Fs: mwFromFilters(m.ReqFilters)}
	}
	return mwCMsg{T: fmt.Sprintf("?%T", m)}
}

func (m *mwSMsg) toMsg(now int64) mocrelay.ServerMsg {
	switch m.T {
	case "EOSE":
		return mocrelay.NewServerEOSEMsg(m.Sub)
	case "EVENT":
		return mocrelay.NewServerEventMsg(m.Sub, m.E.toEvent(now))
	case "NOTICE":
		return mocrelay.NewServerNoticeMsg(m.Msg)
	case "OK":
		return mocrelay.NewServerOKMsg(m.ID, m.Acc, m.Prefix, m.Msg)
	case "AUTH":
		return &mocrelay.ServerAuthMsg{Challenge: m.Msg}
	case "COUNT":
		return mocrelay.NewServerCountMsg(m.Sub, m.Count, m.Approx)
	case "CLOSED":
		return mocrelay.NewServerClosedMsg(m.Sub, m.Prefix, m.Msg)
	}
	common.Fatalf("bad server message type %q", m.T)
	return nil
}

func mwFromSMsg(m mocrelay.ServerMsg, now int64) mwSMsg {
	switch m := m.(type) {
	case *mocrelay.ServerEOSEMsg:
		return mwSMsg{T: "EOSE", Sub: m.SubscriptionID}
	case *mocrelay.ServerEventMsg:
		return mwSMsg{T: "EVENT", Sub: m.SubscriptionID, E: mwFromEvent(m.Event, now)}
	case *mocrelay.ServerNoticeMsg:
		return mwSMsg{T: "NOTICE", Msg: m.Message}
	case *mocrelay.ServerOKMsg:
		return mwSMsg{T: "OK", ID: m.EventID, Acc: m.Accepted, Prefix: m.MsgPrefix, Msg: m.Msg}
	case *mocrelay.ServerAuthMsg:
		return mwSMsg{T: "AUTH", Msg: m.Challenge}
	case *mocrelay.ServerCountMsg:
		var ap *bool
		if m.Approximate != nil {
			ap = common.Ptr(*m.Approximate)
		}
		return mwSMsg{T: "COUNT", Sub: m.SubscriptionID, Count: m.Count, Approx: ap}
	case *mocrelay.ServerClosedMsg:
		return mwSMsg{T: "CLOSED", Sub: m.SubscriptionID, Prefix: m.MsgPrefix, Msg: m.Msg}
	}
	return mwSMsg{T: fmt.Sprintf("?%T", m)}
}

// mwBuild constructs the REAL middleware for a spec.
func mwBuild(s mwSpec) mocrelay.Middleware {
	sec := func(n int64) time.Duration { return time.Duration(n) * time.Second }
	switch s.T {
	case "max_subs":
		return mocrelay.Middleware(mocrelay.NewMaxSubscriptionsMiddleware(int(s.N)))
	case "max_filters":
		return mocrelay.Middleware(mocrelay.NewMaxReqFiltersMiddleware(int(s.N)))
	case "max_limit":
		return mocrelay.Middleware(mocrelay.NewMaxLimitMiddleware(int(s.N)))
	case "max_subid":
		return mocrelay.Middleware(mocrelay.NewMaxSubIDLengthMiddleware(int(s.N)))
	case "max_event_tags":
		return mocrelay.Middleware(mocrelay.NewMaxEventTagsMiddleware(int(s.N)))
	case "max_content":
		return mocrelay.Middleware(mocrelay.NewMaxContentLengthMiddleware(int(s.N)))
	case "created_lower":
		return mocrelay.Middleware(mocrelay.NewCreatedAtLowerLimitMiddleware(s.N))
	case "created_upper":
		return mocrelay.Middleware(mocrelay.NewCreatedAtUpperLimitMiddleware(s.N))
	case "created_window":
		return mocrelay.Middleware(mocrelay.NewEventCreatedAtMiddleware(sec(s.From), sec(s.To)))
	case "allow":
		return mocrelay.Middleware(mocrelay.NewRecvEventAllowFilterMiddleware(mocrelay.NewReqFiltersEventLimitMatcher(common.ToFilters(s.Fs))))
	case "deny":
		return mocrelay.Middleware(mocrelay.NewRecvEventDenyFilterMiddleware(mocrelay.NewReqFiltersEventLimitMatcher(common.ToFilters(s.Fs))))
	case "recv_unique":
		return mocrelay.Middleware(mocrelay.NewRecvEventUniqueFilterMiddleware(int(s.N)))
	case "send_unique":
		return mocrelay.Middleware(mocrelay.NewSendEventUniqueFilterMiddleware(int(s.N)))
	}
	common.Fatalf("bad middleware type %q", s.T)
	return nil
}

// mwCompose: mws[0] is the outermost wrapper.
func mwCompose(mws []mocrelay.Middleware) mocrelay.Middleware {
	return func(h mocrelay.Handler) mocrelay.Handler {
		for i := len(mws) - 1; i >= 0; i-- {
			h = mws[i](h)
		}
		return h
	}
}

// ---------------------------------------------------------------- the driver

type mwSessKey struct{}

type mwSession struct {
	now    int64
	recv   chan mocrelay.ClientMsg
	send   chan mocrelay.ServerMsg
	script chan mocrelay.ServerMsg
	cancel context.CancelFunc
	done   chan struct{}
	mu     sync.Mutex
	down   []mwCMsg
	dead   bool
	// the messages the client received are kept as they were handed over (a write loop marshals them later, a
	// client library keeps them): at the end of the history each must still say what it said (mwKeptCheck)
	curOp int
	kept  *[]mwKept
}

type mwKept struct {
	op, pos int
	m       mocrelay.ServerMsg
	now     int64
}

// mwKeptCheck: a message that no longer says what it said when it was handed over is recorded as it reads now
func mwKeptCheck(kept []mwKept, out []mwObs) {
	for _, k := range kept {
		if k.op < 0 || k.op >= len(out) || k.pos >= len(out[k.op].Client) {
			continue
		}
		if again := mwFromSMsg(k.m, k.now); !reflect.DeepEqual(again, out[k.op].Client[k.pos]) {
			out[k.op].Client[k.pos] = again
		}
	}
}

// mwDown is the recording downstream handler; one value serves every session
// (the session is found through the context, as a real handler would).
type mwDown struct{}

func (mwDown) ServeNostr(ctx context.Context, send chan<- mocrelay.ServerMsg, recv <-chan mocrelay.ClientMsg) error {
	s := ctx.Value(mwSessKey{}).(*mwSession)
	emit := func(m mocrelay.ServerMsg) bool {
		select {
		case <-ctx.Done():
			return false
		case send <- m:
			return true
		}
	}
	for {
		select {
		case <-ctx.Done():
			return ctx.Err()
		case m, ok := <-recv:
			if !ok {
				return mocrelay.ErrRecvClosed
			}
			if c, isClose := m.(*mocrelay.ClientCloseMsg); isClose && c.SubscriptionID == mwSentinel {
				if !emit(mocrelay.NewServerNoticeMsg(mwSentinel)) {
					return ctx.Err()
				}
				continue
			}
			s.mu.Lock()
			s.down = append(s.down, mwFromCMsg(m, s.now))
			s.mu.Unlock()
		case m := <-s.script:
			if !emit(m) || !emit(mocrelay.NewServerNoticeMsg(mwSentinel)) {
				return ctx.Err()
			}
		}
	}
}

func mwStart(h mocrelay.Handler, now int64) *mwSession {
	s := &mwSession{
		now:    now,
		recv:   make(chan mocrelay.ClientMsg),
		send:   make(chan mocrelay.ServerMsg),
		script: make(chan mocrelay.ServerMsg),
		done:   make(chan struct{}),
	}
	ctx, cancel := context.WithCancel(context.WithValue(context.Background(), mwSessKey{}, s))
	s.cancel = cancel
	go func() {
		defer close(s.done)
		defer func() { recover() }()
		h.ServeNostr(ctx, s.send, s.recv)
	}()
	return s
}

func (s *mwSession) stop() {
	s.cancel()
	t := time.NewTimer(2 * time.Second)
	defer t.Stop()
	for {
		select {
		case <-s.done:
			return
		case <-s.send: // let writers blocked on the client channel go
		case <-t.C:
			return
		}
	}
}

// run performs one operation and waits for the sentinel round trip.
func (s *mwSession) run(op mwOp) mwObs {
	if op.D == "c" {
		return s.exchange([]mocrelay.ClientMsg{op.C.toMsg(s.now), &mocrelay.ClientCloseMsg{SubscriptionID: mwSentinel}}, nil)
	}
	return s.exchange(nil, []mocrelay.ServerMsg{op.M.toMsg(s.now)})
}

// sync is a sentinel round trip without a message: when it returns, every
// wrapper of the connection has started and is serving.
func (s *mwSession) sync() mwObs {
	return s.exchange([]mocrelay.ClientMsg{&mocrelay.ClientCloseMsg{SubscriptionID: mwSentinel}}, nil)
}

func (s *mwSession) exchange(cq []mocrelay.ClientMsg, sq []mocrelay.ServerMsg) mwObs {
	obs := mwObs{Down: []mwCMsg{}, Client: []mwSMsg{}}
	if s.dead {
		obs.Timeout = true
		return obs
	}
	s.mu.Lock()
	s.down = nil
	s.mu.Unlock()
	// a sentinel that does not come back means a hung pipeline; wait long enough that
	// machine load cannot be mistaken for it, but do not let a hanging mutant stall the run
	wait := 6 * time.Second
	if mwTimeouts > 10 {
		wait = 300 * time.Millisecond
	}
	deadline := time.NewTimer(wait)
	defer deadline.Stop()
	for {
		var rc chan mocrelay.ClientMsg
		var nc mocrelay.ClientMsg
		if len(cq) > 0 {
			rc, nc = s.recv, cq[0]
		}
		var sc chan mocrelay.ServerMsg
		var ns mocrelay.ServerMsg
		if len(sq) > 0 {
			sc, ns = s.script, sq[0]
		}
		select {
		case rc <- nc:
			cq = cq[1:]
		case sc <- ns:
			sq = sq[1:]
		case m := <-s.send:
			if n, ok := m.(*mocrelay.ServerNoticeMsg); ok && n.Message == mwSentinel {
				s.mu.Lock()
				obs.Down = append(obs.Down, s.down...)
				s.mu.Unlock()
				return obs
			}
			if s.kept != nil {
				*s.kept = append(*s.kept, mwKept{s.curOp, len(obs.Client), m, s.now})
			}
			obs.Client = append(obs.Client, mwFromSMsg(m, s.now))
		case <-s.done:
			s.dead = true
			obs.Timeout = true
			return obs
		case <-deadline.C:
			mwTimeouts++
			s.dead = true
			obs.Timeout = true
			s.mu.Lock()
			obs.Down = append(obs.Down, s.down...)
			s.mu.Unlock()
			return obs
		}
	}
}

// mwNormalize makes the life cycle explicit: a slot that is never started by
// the history gets its start at the very beginning (the shape of cases written
// before connections could come and go).
func mwNormalize(nsess int, ops []mwOp) []mwOp {
	started := make([]bool, nsess)
	for _, op := range ops {
		if op.D == "start" && op.S >= 0 && op.S < nsess {
			started[op.S] = true
		}
	}
	var pre []mwOp
	for i, ok := range started {
		if !ok {
			pre = append(pre, mwOp{S: i, D: "start"})
		}
	}
	return append(pre, ops...)
}

// mwRunSessions: nsess connection slots of ONE handler value, operations
// executed one at a time in the order of ops (the interleaving, and when
// connections begin and end, is chosen by the harness).
func mwRunSessions(h mocrelay.Handler, nsess int, ops []mwOp, now int64) []mwObs {
	ss := make([]*mwSession, nsess)
	out := make([]mwObs, len(ops))
	var kept []mwKept
	defer func() { mwKeptCheck(kept, out) }()
	for i, op := range ops {
		out[i] = mwObs{Down: []mwCMsg{}, Client: []mwSMsg{}}
		if op.S < 0 || op.S >= nsess {
			out[i].Timeout = true
			continue
		}
		switch op.D {
		case "start":
			if ss[op.S] != nil { // a slot is one connection at a time
				ss[op.S].stop()
			}
			ss[op.S] = mwStart(h, now)
			ss[op.S].kept, ss[op.S].curOp = &kept, -1
			if o := ss[op.S].sync(); o.Timeout || len(o.Down) > 0 || len(o.Client) > 0 {
				out[i] = o
				out[i].Timeout = true
			}
		case "end":
			if ss[op.S] != nil {
				ss[op.S].stop()
				ss[op.S] = nil
			}
		default:
			if ss[op.S] != nil {
				ss[op.S].curOp = i
				out[i] = ss[op.S].run(op)
			}
		}
	}
	for _, s := range ss {
		if s != nil {
			s.stop()
		}
	}
	return out
}

// ---------------------------------------------------------------- generators

var mwSubIDs = []string{"a", "ab", "abc", "abcd", ""} // the empty id is legal

// lengths are counted in bytes: "é" is 2 bytes and 1 character, "éé" 4 and 2, "日" 3 and 1, "😀" 4 and 1
var mwContents = []string{"", "1", "12", "123", "1234", "ééééé", "é", "éé", "日", "😀"}

// created_at is any int64: besides the offsets around the limits, the ends
// of the int64 range and the edges of every representation the value passes
// through on its way to a comparison with the clock: the point below which
// the int64 difference now-created_at wraps (created_at < now-MaxInt64), the
// +-292 years at which time.Duration saturates, year 1 (the zero of
// time.Time's internal seconds), the 32- and 53-bit edges, and the largest
// second time.Unix represents without wrapping its internal offset
// (MaxInt64-62135596800; beyond it time.Unix wraps into the remote past, which
// the limit middlewares no longer go through since the repair of F12), and the
// seconds beyond it up to MaxInt64.  None of them is within years of a limit.
type mwTS struct {
	Org string
	DTS int64
}

const mwUnixToInternal = 62135596800 // seconds from year 1 to 1970 (package time)

var mwExtremeTS = []mwTS{
	{"epoch", math.MinInt64}, {"epoch", math.MinInt64 + 1},
	{"wrap", -60}, {"wrap", -5}, {"wrap", 5}, {"wrap", 60},
	{"epoch", -(1 << 62)}, {"epoch", -(1 << 53)},
	{"", -9223372036 - 60}, {"", -9223372036 + 60},
	{"epoch", -mwUnixToInternal - 1}, {"epoch", -mwUnixToInternal},
	{"epoch", -(1 << 31) - 1}, {"epoch", -1}, {"epoch", 0}, {"epoch", 1},
	{"epoch", 1<<31 - 1}, {"epoch", 1 << 31}, {"epoch", 1 << 32},
	{"", 9223372036 - 60}, {"", 9223372036 + 60},
	{"epoch", 1 << 53}, {"epoch", 1 << 62},
	{"epoch", math.MaxInt64 - mwUnixToInternal - 1}, {"epoch", math.MaxInt64 - mwUnixToInternal},
	// beyond the largest second time.Unix represents (defect F12, repaired: the limits saturate)
	{"epoch", math.MaxInt64 - mwUnixToInternal + 1}, {"epoch", math.MaxInt64 - 1}, {"epoch", math.MaxInt64},
}

type mwGen struct {
	r        *common.Rand
	offsets  []int64 // admissible created_at offsets
	extreme  int     // percentage of events with a created_at from mwExtremeTS
	evIDs    []string
	subIDs   []string
	maxSubID int // 0 = any
}

func (g *mwGen) event() *mwEvent {
	u := common.Small
	je := u.Event(g.r, -1)
	e := &mwEvent{ID: common.Pick(g.r, g.evIDs), PK: je.PK, Kind: je.Kind, Tags: [][]string{}, Sig: ""}
	nt := g.r.Intn(5)
	for i := 0; i < nt; i++ {
		t := []string{common.Pick(g.r, u.TagNames), common.Pick(g.r, u.TagVals)}
		e.Tags = append(e.Tags, t)
	}
	e.Content = common.Pick(g.r, mwContents)
	e.DTS = common.Pick(g.r, g.offsets)
	if g.r.Chance(g.extreme) {
		x := common.Pick(g.r, mwExtremeTS)
		e.Org, e.DTS = x.Org, x.DTS
	}
	return e
}

// mwSchedule lays nOps operations drawn from gen out over connections that
// come and go on one handler value: at most maxLive connections at a time in
// at most maxSlots slots; before an operation, with probability churn percent,
// a connection begins, one ends, or one ends and another begins right after
// it (in a new slot, or in a slot whose connection has ended).  Connections
// end without tidying up: what they opened stays open.
func mwSchedule(r *common.Rand, maxSlots, maxLive, nOps, churn int, gen func() mwOp) ([]mwOp, int) {
	var ops []mwOp
	var live, ended []int
	next := 0
	start := func() {
		var s int
		switch {
		case next < maxSlots && (len(ended) == 0 || r.Chance(60)):
			s = next
			next++
		case len(ended) > 0:
			k := r.Intn(len(ended))
			s = ended[k]
			ended = append(ended[:k], ended[k+1:]...)
		default:
			return
		}
		live = append(live, s)
		ops = append(ops, mwOp{S: s, D: "start"})
	}
	end := func() {
		k := r.Intn(len(live))
		s := live[k]
		live = append(live[:k], live[k+1:]...)
		ended = append(ended, s)
		ops = append(ops, mwOp{S: s, D: "end"})
	}
	start()
	for j := 0; j < nOps; j++ {
		if r.Chance(churn) {
			switch k := r.Intn(3); {
			case k == 0 && len(live) < maxLive:
				start()
			case k == 1 && len(live) > 1:
				end()
			default:
				end()
				start()
			}
		}
		if len(live) == 0 { // every slot used up and ended: nothing can be addressed any more
			break
		}
		op := gen()
		op.S = common.Pick(r, live)
		ops = append(ops, op)
	}
	return ops, next
}

func (g *mwGen) filters() []common.JFilter {
	n := g.r.Intn(5)
	fs := []common.JFilter{}
	for i := 0; i < n; i++ {
		var f common.JFilter
		if g.r.Chance(25) {
			f = common.Small.Filter(g.r, 25)
			if f.Tags != nil {
				sort.Slice(*f.Tags, func(a, b int) bool { return (*f.Tags)[a].Name < (*f.Tags)[b].Name })
			}
		}
		f.Limit = nil
		if g.r.Chance(70) {
			f.Limit = common.Ptr(int64(g.r.Intn(5)))
		}
		fs = append(fs, f)
	}
	return fs
}

func (g *mwGen) sub() string {
	for {
		s := common.Pick(g.r, g.subIDs)
		if g.maxSubID == 0 || len(s) <= g.maxSubID {
			return s
		}
	}
}

func (g *mwGen) cmsg() *mwCMsg {
	switch k := g.r.Intn(100); {
	case k < 35:
		return &mwCMsg{T: "EVENT", E: g.event()}
	case k < 60:
		return &mwCMsg{T: "REQ", Sub: g.sub(), Fs: g.filters()}
	case k < 75:
		return &mwCMsg{T: "COUNT", Sub: g.sub(), Fs: g.filters()}
	case k < 87:
		return &mwCMsg{T: "CLOSE", Sub: g.sub()}
	default:
		return &mwCMsg{T: "AUTH", E: g.event()}
	}
}

func (g *mwGen) smsg() *mwSMsg {
	switch g.r.Intn(7) {
	case 0:
		return &mwSMsg{T: "EOSE", Sub: g.sub()}
	case 1:
		return &mwSMsg{T: "EVENT", Sub: g.sub(), E: g.event()}
	case 2:
		return &mwSMsg{T: "NOTICE", Msg: common.Pick(g.r, []string{"", "hello", "rate-limited: slow down"})}
	case 3:
		return &mwSMsg{T: "OK", ID: common.Pick(g.r, g.evIDs), Acc: g.r.Bool(), Prefix: common.Pick(g.r, []string{"", "duplicate: ", "blocked: "}), Msg: common.Pick(g.r, []string{"", "m"})}
	case 4:
		return &mwSMsg{T: "AUTH", Msg: "challenge"}
	case 5:
		c := &mwSMsg{T: "COUNT", Sub: g.sub(), Count: uint64(g.r.Intn(5))}
		if g.r.Chance(40) {
			c.Approx = common.Ptr(g.r.Bool())
		}
		return c
	default:
		return &mwSMsg{T: "CLOSED", Sub: g.sub(), Prefix: common.Pick(g.r, []string{"", "error: "}), Msg: "bye"}
	}
}

// admissible created_at offsets: around every boundary b (seconds relative to
// now) the values b±5 and b±60, kept only when at least 5 s away from every
// boundary of the stack.
func mwOffsets(bounds []int64) []int64 {
	cands := []int64{0, -100000, 40}
	for _, b := range bounds {
		cands = append(cands, b-60, b-5, b+5, b+60)
	}
	var out []int64
	for _, c := range cands {
		ok := true
		for _, b := range bounds {
			d := c - b
			if d < 0 {
				d = -d
			}
			if d < 5 {
				ok = false
			}
		}
		if ok {
			out = append(out, c)
		}
	}
	return out
}

func mwSpecBounds(specs []mwSpec) []int64 {
	var bs []int64
	for _, s := range specs {
		switch s.T {
		case "created_lower":
			bs = append(bs, -s.N)
		case "created_upper":
			bs = append(bs, s.N)
		case "created_window":
			bs = append(bs, s.From, s.To)
		}
	}
	return bs
}

var c17Kinds = []string{"max_filters", "max_limit", "max_subid", "max_event_tags", "max_content",
	"created_lower", "created_upper", "created_window", "allow", "deny"}

func mwRandomSpec(r *common.Rand, t string) mwSpec {
	s := mwSpec{T: t}
	switch t {
	case "created_lower", "created_upper":
		// 0 is a limit like any other: nothing older (newer) than now
		s.N = common.Pick(r, []int64{0, 30, 120, 600})
	case "created_window":
		s.From = common.Pick(r, []int64{-600, -120, -30, 0})
		s.To = common.Pick(r, []int64{0, 30, 120, 600})
	case "allow", "deny":
		n := 1 + r.Intn(2)
		for i := 0; i < n; i++ {
			f := common.Small.Filter(r, 30)
			f.Limit = nil
			if f.Tags != nil {
				sort.Slice(*f.Tags, func(a, b int) bool { return (*f.Tags)[a].Name < (*f.Tags)[b].Name })
			}
			s.Fs = append(s.Fs, f)
		}
	default:
		s.N = int64(1 + r.Intn(3))
	}
	return s
}

// ---------------------------------------------------------------- C17 cases

type c17Lim struct {
	MaxSubs      int   `json:"max_subscriptions"`
	MaxFilters   int   `json:"max_filters"`
	MaxLimit     int   `json:"max_limit"`
	MaxSubID     int   `json:"max_subid_length"`
	MaxEventTags int   `json:"max_event_tags"`
	MaxContent   int   `json:"max_content_length"`
	Lower        int64 `json:"created_at_lower_limit"`
	Upper        int64 `json:"created_at_upper_limit"`
}

type c17Case struct {
	K     string   `json:"k"`             // "stack" | "nip11"
	Mws   []mwSpec `json:"mws,omitempty"` // stack: outermost first
	Doc   string   `json:"doc,omitempty"` // nip11: "nil" (nil pointer) | "nolim" (no limitation block) | "lim"
	Lim   *c17Lim  `json:"lim,omitempty"`
	NSess int      `json:"nsess,omitempty"` // connection slots of the one middleware value (0 = 1)
	Ops   []mwOp   `json:"ops"`
	Now   int64    `json:"now"`
	Built string   `json:"built"` // "ok" | "panic" (building or applying the middleware panicked)
	Obs   []mwObs  `json:"obs"`
}

func c17Run(c *c17Case) {
	c.Now = time.Now().Unix()
	c.Obs = nil
	c.Built = "ok"
	var h mocrelay.Handler
	func() {
		defer func() {
			if r := recover(); r != nil {
				c.Built = "panic"
			}
		}()
		var mw mocrelay.Middleware
		switch c.K {
		case "stack":
			ms := make([]mocrelay.Middleware, len(c.Mws))
			for i, s := range c.Mws {
				ms[i] = mwBuild(s)
			}
			mw = mwCompose(ms)
		case "nip11":
			var doc *mocrelay.NIP11
			switch c.Doc {
			case "nil":
			case "nolim":
				doc = &mocrelay.NIP11{Name: "relay without limitation block"}
			default:
				l := c.Lim
				if l == nil {
					l = &c17Lim{}
				}
				doc = &mocrelay.NIP11{Name: "relay", Limitation: &mocrelay.NIP11Limitation{
					MaxSubscriptions: l.MaxSubs, MaxFilters: l.MaxFilters, MaxLimit: l.MaxLimit, MaxSubIDLength: l.MaxSubID,
					MaxEventTags: l.MaxEventTags, MaxContentLength: l.MaxContent,
					CreatedAtLowerLimit: l.Lower, CreatedAtUpperLimit: l.Upper}}
			}
			mw = mocrelay.BuildMiddlewareFromNIP11(doc)
		default:
			common.Fatalf("bad case kind %q", c.K)
		}
		h = mw(mwDown{})
	}()
	if c.NSess < 1 {
		c.NSess = 1
	}
	c.Ops = mwNormalize(c.NSess, c.Ops)
	if c.Built != "ok" {
		c.Obs = []mwObs{}
		return
	}
	c.Obs = mwRunSessions(h, c.NSess, c.Ops, c.Now)
}

func c17Op(g *mwGen) mwOp {
	if g.r.Chance(75) {
		return mwOp{D: "c", C: g.cmsg()}
	}
	return mwOp{D: "s", M: g.smsg()}
}

// c17Ops: three cases in four one connection from beginning to end; in the
// fourth the middleware value serves up to three connections, two at a time,
// that come and go (a later connection must be treated as the first one was).
func c17Ops(g *mwGen, n int, c *c17Case) {
	if g.r.Chance(75) {
		c.NSess = 1
		c.Ops = []mwOp{{S: 0, D: "start"}}
		for i := 0; i < n; i++ {
			c.Ops = append(c.Ops, c17Op(g))
		}
		return
	}
	c.Ops, c.NSess = mwSchedule(g.r, 3, 2, n+2, 22, func() mwOp { return c17Op(g) })
}

func c17Gen(root *common.Rand, i int) c17Case {
	r := root.Fork(uint64(i))
	var c c17Case
	g := &mwGen{r: r, evIDs: []string{"x", "y", "z"}, subIDs: mwSubIDs, extreme: 12}
	if i%5 < 3 {
		c.K = "stack"
		n := 1
		if r.Chance(60) {
			n = 1 + r.Intn(5)
		}
		for j := 0; j < n; j++ {
			kind := common.Pick(r, c17Kinds)
			if j == 0 { // every kind regularly in the outermost position
				kind = c17Kinds[(i/5)%len(c17Kinds)]
			}
			c.Mws = append(c.Mws, mwRandomSpec(r, kind))
		}
		g.offsets = mwOffsets(mwSpecBounds(c.Mws))
		c17Ops(g, 6+r.Intn(8), &c)
		return c
	}
	c.K = "nip11"
	switch k := r.Intn(200); {
	case k < 6:
		c.Doc = "nil"
	case k < 10:
		c.Doc = "nolim"
	default:
		c.Doc = "lim"
		// every subset of the seven limits: the subset is taken from the case number
		mask := (i / 5) % 128
		if r.Chance(25) {
			mask = r.Intn(128)
		}
		l := &c17Lim{}
		pick := func(bit int) int {
			if mask&(1<<bit) == 0 {
				return 0
			}
			return 1 + r.Intn(3)
		}
		l.MaxSubs, l.MaxFilters, l.MaxLimit, l.MaxEventTags, l.MaxContent = pick(0), pick(1), pick(2), pick(3), pick(4)
		if mask&32 != 0 {
			l.Lower = common.Pick(r, []int64{30, 120, 600})
		}
		if mask&64 != 0 {
			l.Upper = common.Pick(r, []int64{30, 120, 600})
		}
		if r.Chance(10) {
			l.MaxSubID = 2 + r.Intn(2) // not part of the chain; subscription ids are kept within it
			g.maxSubID = l.MaxSubID
		}
		if r.Chance(3) { // out of range: a negative count makes the constructor panic
			switch r.Intn(3) {
			case 0:
				l.MaxFilters = -1
			case 1:
				l.MaxSubs = -2
			default:
				l.MaxContent = -1
			}
		}
		c.Lim = l
		var bs []int64
		if l.Lower != 0 {
			bs = append(bs, -l.Lower)
		}
		if l.Upper != 0 {
			bs = append(bs, l.Upper)
		}
		g.offsets = mwOffsets(bs)
	}
	if g.offsets == nil {
		g.offsets = mwOffsets(nil)
	}
	g.subIDs = []string{"a", "b", "c", "ab", "abc", ""} // the empty id is legal
	c17Ops(g, 6+r.Intn(9), &c)
	return c
}

func init() {
	subcmds["c17"] = func(seed uint64, n int, out *common.Out, replay string) {
		if replay != "" {
			for _, raw := range common.ReadLines(replay) {
				var c c17Case
				if err := json.Unmarshal(raw, &c); err != nil {
					common.Fatalf("bad replay case: %v", err)
				}
				c17Run(&c)
				out.Emit(c)
			}
			return
		}
		root := common.NewRand(seed)
		for i := 0; i < n; i++ {
			c := c17Gen(root, i)
			c17Run(&c)
			out.Emit(c)
		}
	}
}
