package main

// C20: the HTTP front door.  httptest requests against the real ServeMux over
// the cross product of Upgrade / Accept header values and mux configurations,
// direct calls of (*NIP11).ServeHTTP, and NIP-11 documents / kind ranges
// through json.Marshal and json.Unmarshal.

import (
	"context"
	"encoding/json"
	"fmt"
	"log/slog"
	"net/http"
	"net/http/httptest"
	"strconv"
	"sync"
	"sync/atomic"

	"github.com/high-moctane/mocrelay"
	"verif/harness/common"
)

// ---- JSON shape of a document: nothing omitted, so nil and empty stay apart
type c20Kind struct {
	From int `json:"from"`
	To   int `json:"to"`
}

type c20Lim struct {
	MaxMessageLength    int   `json:"max_message_length"`
	MaxSubscriptions    int   `json:"max_subscriptions"`
	MaxFilters          int   `json:"max_filters"`
	MaxLimit            int   `json:"max_limit"`
	MaxSubIDLength      int   `json:"max_subid_length"`
	MaxEventTags        int   `json:"max_event_tags"`
	MaxContentLength    int   `json:"max_content_length"`
	MinPoWDifficulty    int   `json:"min_pow_difficulty"`
	AuthRequired        bool  `json:"auth_required"`
	PaymentRequired     bool  `json:"payment_required"`
	CreatedAtLowerLimit int64 `json:"created_at_lower_limit"`
	CreatedAtUpperLimit int64 `json:"created_at_upper_limit"`
}

type c20Ret struct {
	Kinds []*c20Kind `json:"kinds"`
	Time  *int       `json:"time"`
	Count *int       `json:"count"`
}

type c20Fee struct {
	Kinds  []*c20Kind `json:"kinds"`
	Amount int        `json:"amount"`
	Unit   string     `json:"unit"`
	Period *int       `json:"period"`
}

type c20Fees struct {
	Admission    []*c20Fee `json:"admission"`
	Subscription []*c20Fee `json:"subscription"`
	Publication  []*c20Fee `json:"publication"`
}

type c20Doc struct {
	Name           string   `json:"name"`
	Description    string   `json:"description"`
	Pubkey         string   `json:"pubkey"`
	Contact        string   `json:"contact"`
	SupportedNIPs  []int    `json:"supported_nips"`
	Software       string   `json:"software"`
	Version        string   `json:"version"`
	Limitation     *c20Lim  `json:"limitation"`
	Retention      *c20Ret  `json:"retention"`
	RelayCountries []string `json:"relay_countries"`
	LanguageTags   []string `json:"language_tags"`
	Tags           []string `json:"tags"`
	PostingPolicy  string   `json:"posting_policy"`
	PaymentsURL    string   `json:"payments_url"`
	Fees           *c20Fees `json:"fees"`
	Icon           string   `json:"icon"`
}

func c20KindsTo(ks []*c20Kind) []*mocrelay.Nip11Kind {
	if ks == nil {
		return nil
	}
	out := make([]*mocrelay.Nip11Kind, len(ks))
	for i, k := range ks {
		if k != nil {
			out[i] = &mocrelay.Nip11Kind{From: k.From, To: k.To}
		}
	}
	return out
}

func c20KindsFrom(ks []*mocrelay.Nip11Kind) []*c20Kind {
	if ks == nil {
		return nil
	}
	out := make([]*c20Kind, len(ks))
	for i, k := range ks {
		if k != nil {
			out[i] = &c20Kind{k.From, k.To}
		}
	}
	return out
}

func c20FeesTo(fs []*c20Fee) []*mocrelay.Nip11Fee {
	if fs == nil {
		return nil
	}
	out := make([]*mocrelay.Nip11Fee, len(fs))
	for i, f := range fs {
		if f != nil {
			out[i] = &mocrelay.Nip11Fee{Kinds: c20KindsTo(f.Kinds), Amount: f.Amount, Unit: f.Unit, Period: c20CopyInt(f.Period)}
		}
	}
	return out
}

func c20FeesFrom(fs []*mocrelay.Nip11Fee) []*c20Fee {
	if fs == nil {
		return nil
	}
	out := make([]*c20Fee, len(fs))
	for i, f := range fs {
		if f != nil {
			out[i] = &c20Fee{Kinds: c20KindsFrom(f.Kinds), Amount: f.Amount, Unit: f.Unit, Period: c20CopyInt(f.Period)}
		}
	}
	return out
}

func c20CopyInt(p *int) *int {
	if p == nil {
		return nil
	}
	v := *p
	return &v
}

func c20CopyStrs(s []string) []string {
	if s == nil {
		return nil
	}
	return append([]string{}, s...)
}

func (d *c20Doc) To() *mocrelay.NIP11 {
	n := &mocrelay.NIP11{
		Name: d.Name, Description: d.Description, Pubkey: d.Pubkey, Contact: d.Contact,
		Software: d.Software, Version: d.Version,
		RelayContries: c20CopyStrs(d.RelayCountries), LanguageTags: c20CopyStrs(d.LanguageTags), Tags: c20CopyStrs(d.Tags),
		PostingPolicy: d.PostingPolicy, PaymentsURL: d.PaymentsURL, Icon: d.Icon,
	}
	if d.SupportedNIPs != nil {
		n.SupportedNIPs = append([]int{}, d.SupportedNIPs...)
	}
	if l := d.Limitation; l != nil {
		n.Limitation = &mocrelay.NIP11Limitation{
			MaxMessageLength: l.MaxMessageLength, MaxSubscriptions: l.MaxSubscriptions, MaxFilters: l.MaxFilters,
			MaxLimit: l.MaxLimit, MaxSubIDLength: l.MaxSubIDLength, MaxEventTags: l.MaxEventTags,
			MaxContentLength: l.MaxContentLength, MinPoWDifficulty: l.MinPoWDifficulty,
			AuthRequired: l.AuthRequired, PaymentRequired: l.PaymentRequired,
			CreatedAtLowerLimit: l.CreatedAtLowerLimit, CreatedAtUpperLimit: l.CreatedAtUpperLimit,
		}
	}
	if r := d.Retention; r != nil {
		n.Retention = &mocrelay.NIP11Retention{Kinds: c20KindsTo(r.Kinds), Time: c20CopyInt(r.Time), Count: c20CopyInt(r.Count)}
	}
	if f := d.Fees; f != nil {
		n.Fees = &mocrelay.NIP11Fees{Admission: c20FeesTo(f.Admission), Subscription: c20FeesTo(f.Subscription), Publication: c20FeesTo(f.Publication)}
	}
	return n
}

func c20DocFrom(n *mocrelay.NIP11) *c20Doc {
	d := &c20Doc{
		Name: n.Name, Description: n.Description, Pubkey: n.Pubkey, Contact: n.Contact,
		Software: n.Software, Version: n.Version,
		RelayCountries: c20CopyStrs(n.RelayContries), LanguageTags: c20CopyStrs(n.LanguageTags), Tags: c20CopyStrs(n.Tags),
		PostingPolicy: n.PostingPolicy, PaymentsURL: n.PaymentsURL, Icon: n.Icon,
	}
	if n.SupportedNIPs != nil {
		d.SupportedNIPs = append([]int{}, n.SupportedNIPs...)
	}
	if l := n.Limitation; l != nil {
		d.Limitation = &c20Lim{l.MaxMessageLength, l.MaxSubscriptions, l.MaxFilters, l.MaxLimit, l.MaxSubIDLength,
			l.MaxEventTags, l.MaxContentLength, l.MinPoWDifficulty, l.AuthRequired, l.PaymentRequired,
			l.CreatedAtLowerLimit, l.CreatedAtUpperLimit}
	}
	if r := n.Retention; r != nil {
		d.Retention = &c20Ret{c20KindsFrom(r.Kinds), c20CopyInt(r.Time), c20CopyInt(r.Count)}
	}
	if f := n.Fees; f != nil {
		d.Fees = &c20Fees{c20FeesFrom(f.Admission), c20FeesFrom(f.Subscription), c20FeesFrom(f.Publication)}
	}
	return d
}

// ---- cases
type c20Obs struct {
	Relay   bool     `json:"relay"`   // the relay's ServeHTTP was entered (seen through its logger)
	Default bool     `json:"default"` // the default handler was entered
	Status  int      `json:"status"`
	CT      []string `json:"ct"`
	ACAO    []string `json:"acao"`
	Body    string   `json:"body"`
	Panic   string   `json:"panic,omitempty"`
}

type c20Case struct {
	K string `json:"k"` // route | direct | doc | kind | kinddec

	// route, direct
	Method     string     `json:"method,omitempty"`
	Upgrade    []string   `json:"upgrade"`
	Accept     []string   `json:"accept"`
	Connection bool       `json:"connection,omitempty"` // also send `Connection: Upgrade`
	Extra      [][]string `json:"extra,omitempty"`      // further request headers the property does not mention
	// Prior: the document the SAME *NIP11 value held when it was requested once before; the
	// configuration was then changed in place to Doc and requested again (obs is the second answer)
	Prior *c20Doc `json:"prior,omitempty"`
	// Busy: other goroutines request this document from another NIP11 value all the while (see c20Exchange)
	Busy       *c20Doc `json:"busy,omitempty"`
	Doc        *c20Doc `json:"doc"` // route: nil = no NIP11 configured
	HasDefault bool    `json:"has_default,omitempty"`
	Obs        *c20Obs `json:"obs,omitempty"`

	// doc
	Marshal *string `json:"marshal,omitempty"`
	RT      *c20Doc `json:"rt,omitempty"`

	// kind / kinddec
	Kind   *c20Kind `json:"kind,omitempty"`
	Text   string   `json:"text,omitempty"`
	KindRT *c20Kind `json:"kind_rt,omitempty"`
}

// a slog handler that only notes that something was logged
type c20LogFlag struct{ hit *atomic.Bool }

func (h c20LogFlag) Enabled(context.Context, slog.Level) bool { return true }
func (h c20LogFlag) Handle(context.Context, slog.Record) error {
	h.hit.Store(true)
	return nil
}
func (h c20LogFlag) WithAttrs([]slog.Attr) slog.Handler { return h }
func (h c20LogFlag) WithGroup(string) slog.Handler      { return h }

func c20ExchangeOnce(c *c20Case, direct bool) {
	obs := &c20Obs{CT: []string{}, ACAO: []string{}}
	c.Obs = obs
	var relayHit, defaultHit atomic.Bool
	method := c.Method
	if method == "" {
		method = "GET"
	}
	req := httptest.NewRequest(method, "http://relay.example/", nil)
	for _, v := range c.Upgrade {
		req.Header.Add("Upgrade", v)
	}
	for _, v := range c.Accept {
		req.Header.Add("Accept", v)
	}
	if c.Connection {
		req.Header.Add("Connection", "Upgrade")
	}
	for _, kv := range c.Extra {
		if len(kv) == 2 {
			req.Header.Add(kv[0], kv[1])
		}
	}
	rec := httptest.NewRecorder()
	func() {
		defer func() {
			if r := recover(); r != nil {
				obs.Panic = fmt.Sprint(r)
			}
		}()
		// the configured document, possibly one that was served before with other content
		docPtr := func() *mocrelay.NIP11 {
			if c.Prior == nil {
				return c.Doc.To()
			}
			p := c.Prior.To()
			warm := httptest.NewRequest("GET", "http://relay.example/", nil)
			warm.Header.Set("Accept", "application/nostr+json")
			p.ServeHTTP(httptest.NewRecorder(), warm)
			*p = *c.Doc.To()
			return p
		}
		if direct {
			docPtr().ServeHTTP(c20Writer(c, rec), req)
			return
		}
		opt := mocrelay.NewDefaultRelayOption()
		opt.Logger = slog.New(c20LogFlag{&relayHit})
		relay := mocrelay.NewRelay(mocrelay.HandlerFunc(
			func(ctx context.Context, send chan<- mocrelay.ServerMsg, recv <-chan mocrelay.ClientMsg) error {
				return nil
			}), opt)
		mux := &mocrelay.ServeMux{Relay: relay}
		if c.Doc != nil {
			mux.NIP11 = docPtr()
		}
		if c.HasDefault {
			mux.Default = http.HandlerFunc(func(w http.ResponseWriter, r *http.Request) {
				defaultHit.Store(true)
				w.WriteHeader(299)
				w.Write([]byte("default handler"))
			})
		}
		mux.ServeHTTP(c20Writer(c, rec), req)
		relay.Wait()
	}()
	res := rec.Result()
	obs.Relay, obs.Default = relayHit.Load(), defaultHit.Load()
	obs.Status = res.StatusCode
	if obs.Panic != "" {
		obs.Status = -1
	}
	if v := res.Header.Values("Content-Type"); v != nil {
		obs.CT = v
	}
	if v := res.Header.Values("Access-Control-Allow-Origin"); v != nil {
		obs.ACAO = v
	}
	obs.Body = rec.Body.String()
	// a declared length is the length of the body in bytes (a recorder does not enforce it, a connection does)
	if cl := res.Header.Get("Content-Length"); cl != "" && cl != strconv.Itoa(len(obs.Body)) && obs.Panic == "" {
		obs.Panic = "Content-Length " + cl + " for a body of " + strconv.Itoa(len(obs.Body)) + " bytes"
		obs.Status = -1
	}
}

// c20BusyWriter: a ResponseWriter in whose Header and WriteHeader calls another request for another document is
// served (what a concurrent request does, at the moments that matter, without depending on the scheduler)
type c20BusyWriter struct {
	http.ResponseWriter
	other *mocrelay.NIP11
	depth int
}

func (w *c20BusyWriter) serveOther() {
	if w.depth > 0 || w.other == nil {
		return
	}
	w.depth++
	defer func() { w.depth--; recover() }()
	req := httptest.NewRequest("GET", "http://relay.example/", nil)
	req.Header.Set("Accept", "application/nostr+json")
	w.other.ServeHTTP(httptest.NewRecorder(), req)
}

func (w *c20BusyWriter) Header() http.Header {
	w.serveOther()
	return w.ResponseWriter.Header()
}

func (w *c20BusyWriter) WriteHeader(code int) {
	w.serveOther()
	w.ResponseWriter.WriteHeader(code)
}

func c20Writer(c *c20Case, rec *httptest.ResponseRecorder) http.ResponseWriter {
	if c.Busy == nil {
		return rec
	}
	return &c20BusyWriter{ResponseWriter: rec, other: c.Busy.To()}
}

// c20Exchange: one exchange; with Busy set, the exchange is repeated 150 times while four goroutines keep
// requesting the document Busy from a NIP11 value of their own, and the observation is the first one that
// differs from the first exchange's, if any does (the front door serves many requests at once).
func c20Exchange(c *c20Case, direct bool) {
	c20ExchangeOnce(c, direct)
	if c.Busy == nil || c.Obs == nil {
		return
	}
	first := *c.Obs
	stop := make(chan struct{})
	var wg sync.WaitGroup
	other := c.Busy.To()
	for g := 0; g < 4; g++ {
		wg.Add(1)
		go func() {
			defer wg.Done()
			defer func() { recover() }()
			for {
				select {
				case <-stop:
					return
				default:
				}
				req := httptest.NewRequest("GET", "http://relay.example/", nil)
				req.Header.Set("Accept", "application/nostr+json")
				other.ServeHTTP(httptest.NewRecorder(), req)
			}
		}()
	}
	for k := 0; k < 150; k++ {
		c20ExchangeOnce(c, direct)
		if c.Obs.Body != first.Body || c.Obs.Status != first.Status || c.Obs.Panic != first.Panic {
			break
		}
	}
	close(stop)
	wg.Wait()
}

func c20Run(c *c20Case) {
	c.Obs, c.Marshal, c.RT, c.KindRT = nil, nil, nil, nil
	switch c.K {
	case "route":
		c20Exchange(c, false)
	case "direct":
		if c.Doc == nil {
			c.Doc = &c20Doc{}
		}
		c20Exchange(c, true)
	case "doc":
		if c.Doc == nil {
			c.Doc = &c20Doc{}
		}
		b, err := json.Marshal(c.Doc.To())
		if err != nil {
			return
		}
		s := string(b)
		c.Marshal = &s
		var back mocrelay.NIP11
		if err := json.Unmarshal(b, &back); err == nil {
			c.RT = c20DocFrom(&back)
		}
	case "kind":
		if c.Kind == nil {
			c.Kind = &c20Kind{}
		}
		b, err := json.Marshal(mocrelay.Nip11Kind{From: c.Kind.From, To: c.Kind.To})
		if err != nil {
			return
		}
		s := string(b)
		c.Marshal = &s
		var back mocrelay.Nip11Kind
		if err := json.Unmarshal(b, &back); err == nil {
			c.KindRT = &c20Kind{back.From, back.To}
		}
	case "kinddec":
		var back mocrelay.Nip11Kind
		func() {
			defer func() {
				if r := recover(); r != nil {
					c.KindRT = nil
				}
			}()
			if err := json.Unmarshal([]byte(c.Text), &back); err == nil {
				c.KindRT = &c20Kind{back.From, back.To}
			}
		}()
	}
}

// ---- generators
var c20Strs = []string{"", "", "a", "relay <b>&co", "日本語", "q\"uo\\te", "line\nbreak", "sep ", "wss://r.example",
	// percent signs: a document that passes through a formatting function as its format string loses them
	"100% free", "https://r.example/icon%20v2.png", "50%", "%s%d%v", "%%",
	// text that merely looks like a JSON escape, and a drive letter
	"write \\u0026 to get an ampersand", "C:\\u003e", "\\u003cb\\u003e"}
var c20Ints = []int{0, 0, 1, -1, 7, 100, 65535, 1 << 31, -1 << 63, 1<<63 - 1}
var c20KindNums = []int{0, 1, 4, 7, 40, -1, -5, 30023, 1 << 40}

const c20NJ = "application/nostr+json"

var c20Upgrades = [][]string{nil, nil, nil, nil, nil, nil, nil, nil, {""}, {"websocket"}, {"WebSocket"}, {"h2c"}, {"", "websocket"}, {"websocket", "x"}, {" "}}
var c20Accepts = [][]string{nil, {c20NJ}, {c20NJ}, {c20NJ}, {c20NJ}, {c20NJ}, {c20NJ}, {c20NJ}, {c20NJ + "; q=1"}, {c20NJ + ";q=0.9, */*"}, {"application/json"}, {"*/*"},
	{"text/html", c20NJ}, {c20NJ, "text/html"}, {""}, {"Application/Nostr+JSON"}, {" " + c20NJ}, {c20NJ + " "}, {"application/nostr"},
	{"text/html, " + c20NJ}}

func c20GenKinds(r *common.Rand) []*c20Kind {
	switch r.Intn(5) {
	case 0:
		return nil
	case 1:
		return []*c20Kind{}
	}
	n := 1 + r.Intn(4)
	out := make([]*c20Kind, n)
	for i := range out {
		switch r.Intn(8) {
		case 0: // nil pointer
		case 1, 2: // single number
			k := common.Pick(r, c20KindNums)
			out[i] = &c20Kind{k, k}
		default:
			out[i] = &c20Kind{common.Pick(r, c20KindNums), common.Pick(r, c20KindNums)}
		}
	}
	return out
}

func c20GenOptInt(r *common.Rand) *int {
	if r.Chance(40) {
		return nil
	}
	v := common.Pick(r, c20Ints)
	return &v
}

func c20GenStrs(r *common.Rand) []string {
	switch r.Intn(4) {
	case 0:
		return nil
	case 1:
		return []string{}
	}
	n := 1 + r.Intn(3)
	out := make([]string, n)
	for i := range out {
		out[i] = common.Pick(r, c20Strs)
	}
	return out
}

func c20GenFees(r *common.Rand) []*c20Fee {
	switch r.Intn(4) {
	case 0:
		return nil
	case 1:
		return []*c20Fee{}
	}
	n := 1 + r.Intn(3)
	out := make([]*c20Fee, n)
	for i := range out {
		if r.Chance(15) {
			continue
		}
		out[i] = &c20Fee{Kinds: c20GenKinds(r), Amount: common.Pick(r, c20Ints), Unit: common.Pick(r, c20Strs), Period: c20GenOptInt(r)}
	}
	return out
}

func c20GenDoc(r *common.Rand) *c20Doc {
	d := &c20Doc{
		Name: common.Pick(r, c20Strs), Description: common.Pick(r, c20Strs), Pubkey: common.Pick(r, c20Strs),
		Contact: common.Pick(r, c20Strs), Software: common.Pick(r, c20Strs), Version: common.Pick(r, c20Strs),
		PostingPolicy: common.Pick(r, c20Strs), PaymentsURL: common.Pick(r, c20Strs), Icon: common.Pick(r, c20Strs),
		RelayCountries: c20GenStrs(r), LanguageTags: c20GenStrs(r), Tags: c20GenStrs(r),
	}
	switch r.Intn(4) {
	case 0:
	case 1:
		d.SupportedNIPs = []int{}
	default:
		n := 1 + r.Intn(4)
		for i := 0; i < n; i++ {
			d.SupportedNIPs = append(d.SupportedNIPs, common.Pick(r, c20Ints))
		}
	}
	switch r.Intn(3) {
	case 0:
	case 1:
		d.Limitation = &c20Lim{}
	default:
		p := func() int { return common.Pick(r, c20Ints) }
		d.Limitation = &c20Lim{p(), p(), p(), p(), p(), p(), p(), p(), r.Bool(), r.Bool(), int64(p()), int64(p())}
	}
	switch r.Intn(3) {
	case 0:
	case 1:
		d.Retention = &c20Ret{}
	default:
		d.Retention = &c20Ret{c20GenKinds(r), c20GenOptInt(r), c20GenOptInt(r)}
	}
	switch r.Intn(3) {
	case 0:
	case 1:
		d.Fees = &c20Fees{}
	default:
		d.Fees = &c20Fees{c20GenFees(r), c20GenFees(r), c20GenFees(r)}
	}
	return d
}

var c20KindTexts = []string{
	`7`, `0`, `-3`, `[1,2]`, `[4,4]`, `[7,1]`, `[-1,0]`, `[]`, `[1]`, `[1,2,3]`, `"7"`, `null`, `true`, `{}`, `{"from":1,"to":2}`,
	`1.5`, `1e2`, `[1.5,2]`, `[1,"2"]`, `[null,1]`, `[1,null]`, `[[1],2]`, `99999999999999999999`, `[1,99999999999999999999]`,
	`9223372036854775807`, `-9223372036854775808`, `9223372036854775808`, ` 5 `, `[ 1 , 2 ]`, `"a"`, `[true,false]`, `-0`,
}

// headers a browser or proxy adds; none of them may influence routing or the answer
func c20GenExtra(r *common.Rand) [][]string {
	var out [][]string
	pool := [][]string{{"Origin", "https://client.example"}, {"Origin", "null"}, {"Referer", "https://client.example/app"},
		{"User-Agent", "nostr-client/1.0"}, {"Accept-Language", "en"}, {"Cookie", "a=b"}, {"X-Forwarded-For", "10.0.0.1"},
		{"Cache-Control", "no-cache"}, {"Accept-Encoding", "gzip"}, {"Content-Type", "application/nostr+json"},
		// range and conditional request headers: the document is not a file
		{"Range", "bytes=0-9"}, {"If-None-Match", "*"}, {"If-Match", "\"v1\""}, {"If-Modified-Since", "Mon, 02 Jan 2006 15:04:05 GMT"},
		{"If-Range", "\"v1\""}}
	if !r.Chance(55) {
		return nil
	}
	for k := 1 + r.Intn(3); k > 0; k-- {
		out = append(out, common.Pick(r, pool))
	}
	return out
}

func c20Gen(r *common.Rand, i int) c20Case {
	switch p := i % 20; {
	case p < 11:
		c := c20Case{K: "route", Upgrade: common.Pick(r, c20Upgrades), Accept: common.Pick(r, c20Accepts),
			Connection: r.Chance(30), HasDefault: r.Bool(), Method: common.Pick(r, []string{"GET", "GET", "POST", "OPTIONS", "HEAD"})}
		if c.Method == "HEAD" {
			c.Method = "GET" // a HEAD answer has no body to look at
		}
		if r.Chance(60) {
			c.Doc = c20GenDoc(r)
		}
		c.Extra = c20GenExtra(r)
		if c.Doc != nil && r.Chance(25) {
			c.Prior = c20GenDoc(r)
		}
		if c.Doc != nil && c.Upgrade == nil && r.Chance(6) {
			c.Accept = []string{c20NJ}
			c.Busy = c20GenDoc(r)
		}
		return c
	case p < 13:
		c := c20Case{K: "direct", Accept: common.Pick(r, c20Accepts), Doc: c20GenDoc(r), Method: "GET", Extra: c20GenExtra(r)}
		if r.Chance(30) {
			c.Prior = c20GenDoc(r)
		}
		if r.Chance(6) {
			c.Accept = []string{c20NJ}
			c.Busy = c20GenDoc(r)
		}
		return c
	case p < 17:
		return c20Case{K: "doc", Doc: c20GenDoc(r)}
	case p < 19:
		k := &c20Kind{common.Pick(r, c20KindNums), common.Pick(r, c20KindNums)}
		if r.Chance(35) {
			k.To = k.From
		}
		if r.Chance(10) {
			k = &c20Kind{common.Pick(r, c20Ints), common.Pick(r, c20Ints)}
		}
		return c20Case{K: "kind", Kind: k}
	default:
		if r.Chance(30) {
			return c20Case{K: "kinddec", Text: fmt.Sprintf("[%d,%d]", common.Pick(r, c20KindNums), common.Pick(r, c20KindNums))}
		}
		return c20Case{K: "kinddec", Text: common.Pick(r, c20KindTexts)}
	}
}

func init() {
	subcmds["c20"] = func(seed uint64, n int, out *common.Out, replay string) {
		if replay != "" {
			for _, raw := range common.ReadLines(replay) {
				var c c20Case
				if err := json.Unmarshal(raw, &c); err != nil {
					common.Fatalf("bad replay case: %v", err)
				}
				c20Run(&c)
				out.Emit(c)
			}
			return
		}
		root := common.NewRand(seed)
		for i := 0; i < n; i++ {
			c := c20Gen(root.Fork(uint64(i)), i)
			c20Run(&c)
			out.Emit(c)
		}
	}
}
