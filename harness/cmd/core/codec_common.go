package main

// Shared by the C10 (wire codec) and C11 (admission) sub-commands:
//   - JV: a JSON value as the Coq model sees it (Json.v), its compact JSON form
//     for the trace, a printer to JSON text with random insignificant white
//     space and string escapes, and a reader from valid JSON text (token level,
//     duplicates and member order kept);
//   - XVal: Go values of the wire types with every nil kept, both ways;
//   - running the real decoders / encoders under recover().

import (
	"bytes"
	"encoding/hex"
	"encoding/json"
	"fmt"
	"io"
	"sort"
	"strconv"
	"strings"
	"unicode/utf8"

	"github.com/high-moctane/mocrelay"
	"verif/harness/common"
)

// ---------------------------------------------------------------------------
// byte strings travel as hex

type HStr string

func (h HStr) MarshalJSON() ([]byte, error) {
	return []byte(`"` + hex.EncodeToString([]byte(h)) + `"`), nil
}

func (h *HStr) UnmarshalJSON(b []byte) error {
	var s string
	if err := json.Unmarshal(b, &s); err != nil {
		return err
	}
	d, err := hex.DecodeString(s)
	if err != nil {
		return err
	}
	*h = HStr(d)
	return nil
}

// ---------------------------------------------------------------------------
// JV

type JMember struct {
	K string
	V JV
}

type JV struct {
	T   byte // 'z' null, 'b' bool, 'i' integer literal, 'f' other number, 's' string, 'a' array, 'o' object
	B   bool
	Neg bool   // 'i'
	Mag string // 'i': decimal digits without sign
	Lit string // 'f': the literal text
	S   string
	A   []JV
	O   []JMember
}

func jNull() JV            { return JV{T: 'z'} }
func jBool(b bool) JV      { return JV{T: 'b', B: b} }
func jStr(s string) JV     { return JV{T: 's', S: s} }
func jArr(a ...JV) JV      { return JV{T: 'a', A: a} }
func jObj(m ...JMember) JV { return JV{T: 'o', O: m} }
func jFrac(lit string) JV  { return JV{T: 'f', Lit: lit} }
func jInt(v int64) JV {
	if v < 0 {
		return JV{T: 'i', Neg: true, Mag: strconv.FormatUint(uint64(-(v+1))+1, 10)}
	}
	return JV{T: 'i', Mag: strconv.FormatInt(v, 10)}
}
func jIntLit(neg bool, mag string) JV { return JV{T: 'i', Neg: neg, Mag: mag} }
func jStrs(ss ...string) JV {
	a := make([]JV, len(ss))
	for i, s := range ss {
		a[i] = jStr(s)
	}
	return JV{T: 'a', A: a}
}

// compact trace form: null | true | {"i":[neg,"mag"]} | {"f":"lit"} | {"s":"hex"} | [..] | {"o":[["hexkey",v],..]}
func (j JV) MarshalJSON() ([]byte, error) {
	var b bytes.Buffer
	j.writeTrace(&b)
	return b.Bytes(), nil
}

func (j JV) writeTrace(b *bytes.Buffer) {
	switch j.T {
	case 'z', 0:
		b.WriteString("null")
	case 'b':
		if j.B {
			b.WriteString("true")
		} else {
			b.WriteString("false")
		}
	case 'i':
		fmt.Fprintf(b, `{"i":[%v,"%s"]}`, j.Neg, j.Mag)
	case 'f':
		fmt.Fprintf(b, `{"f":%q}`, j.Lit)
	case 's':
		fmt.Fprintf(b, `{"s":"%s"}`, hex.EncodeToString([]byte(j.S)))
	case 'a':
		b.WriteByte('[')
		for i, x := range j.A {
			if i > 0 {
				b.WriteByte(',')
			}
			x.writeTrace(b)
		}
		b.WriteByte(']')
	case 'o':
		b.WriteString(`{"o":[`)
		for i, m := range j.O {
			if i > 0 {
				b.WriteByte(',')
			}
			fmt.Fprintf(b, `["%s",`, hex.EncodeToString([]byte(m.K)))
			m.V.writeTrace(b)
			b.WriteByte(']')
		}
		b.WriteString("]}")
	}
}

func (j *JV) UnmarshalJSON(b []byte) error {
	b = bytes.TrimSpace(b)
	if len(b) == 0 {
		return fmt.Errorf("empty jv")
	}
	switch {
	case bytes.Equal(b, []byte("null")):
		*j = jNull()
	case bytes.Equal(b, []byte("true")):
		*j = jBool(true)
	case bytes.Equal(b, []byte("false")):
		*j = jBool(false)
	case b[0] == '[':
		var raw []json.RawMessage
		if err := json.Unmarshal(b, &raw); err != nil {
			return err
		}
		a := make([]JV, len(raw))
		for i, r := range raw {
			if err := a[i].UnmarshalJSON(r); err != nil {
				return err
			}
		}
		*j = JV{T: 'a', A: a}
	case b[0] == '{':
		var m map[string]json.RawMessage
		if err := json.Unmarshal(b, &m); err != nil {
			return err
		}
		if r, ok := m["i"]; ok {
			var pr [2]json.RawMessage
			if err := json.Unmarshal(r, &pr); err != nil {
				return err
			}
			var neg bool
			var mag string
			if err := json.Unmarshal(pr[0], &neg); err != nil {
				return err
			}
			if err := json.Unmarshal(pr[1], &mag); err != nil {
				return err
			}
			*j = jIntLit(neg, mag)
		} else if r, ok := m["f"]; ok {
			var lit string
			if err := json.Unmarshal(r, &lit); err != nil {
				return err
			}
			*j = jFrac(lit)
		} else if r, ok := m["s"]; ok {
			var h HStr
			if err := h.UnmarshalJSON(r); err != nil {
				return err
			}
			*j = jStr(string(h))
		} else if r, ok := m["o"]; ok {
			var raw [][2]json.RawMessage
			if err := json.Unmarshal(r, &raw); err != nil {
				return err
			}
			ms := make([]JMember, len(raw))
			for i, kv := range raw {
				var h HStr
				if err := h.UnmarshalJSON(kv[0]); err != nil {
					return err
				}
				ms[i].K = string(h)
				if err := ms[i].V.UnmarshalJSON(kv[1]); err != nil {
					return err
				}
			}
			*j = JV{T: 'o', O: ms}
		} else {
			return fmt.Errorf("bad jv object %s", b)
		}
	default:
		return fmt.Errorf("bad jv %s", b)
	}
	return nil
}

func (j JV) depth() int {
	d := 0
	for _, x := range j.A {
		if k := x.depth(); k > d {
			d = k
		}
	}
	for _, m := range j.O {
		if k := m.V.depth(); k > d {
			d = k
		}
	}
	return d + 1
}

func (j JV) size() int {
	n := 1
	for _, x := range j.A {
		n += x.size()
	}
	for _, m := range j.O {
		n += 1 + m.V.size()
	}
	return n
}

// ---------------------------------------------------------------------------
// printing a JV as JSON text

type printStyle struct {
	r        *common.Rand // nil: canonical compact text, minimal escapes
	ws       int          // per-gap chance (percent) of white space
	esc      int          // per-character chance (percent) of a \u escape
	lead     bool         // white space before the first token
	labelEsc bool         // spell the first element of the top-level array (if a string) with an escape
	bad      int          // per-string chance (percent) of a raw invalid UTF-8 byte sequence at a random position
	noLabel  bool         // bad: leave the first element of the top-level array alone
	// out: number of strings that received an invalid byte sequence
	injected int
	// out: whether the first element of the top-level array was spelled with a backslash
	labelEscaped bool
}

var wsChars = []string{" ", "\t", "\n", "\r", "  ", " \n"}

// one piece of white space; now and then a run of 24..63 characters (a decoder that
// looks only at a prefix of the text for the label loses it behind such a run)
func (p *printStyle) wsPiece() string {
	if p.r.Chance(5) {
		n := 24 + p.r.Intn(40)
		out := make([]byte, n)
		for i := range out {
			out[i] = " \t\n\r"[p.r.Intn(4)]
		}
		return string(out)
	}
	return common.Pick(p.r, wsChars)
}

func (p *printStyle) gap(b *bytes.Buffer) {
	if p.r != nil && p.r.Chance(p.ws) {
		b.WriteString(p.wsPiece())
	}
}

// byte sequences that are not UTF-8: lone 0xff, a lead byte without continuation, a
// truncated three-byte form, a UTF-8 encoded surrogate, a code point above
// U+10FFFF, an over-long form, a lone continuation byte
var badUTF8 = []string{"\xff", "\xc3", "\xe2\x82", "\xed\xa0\x80", "\xf4\x90\x80\x80", "\xc0\xaf", "\x80"}

func (p *printStyle) str(b *bytes.Buffer, s string, plain bool, force bool) (escaped bool) {
	b.WriteByte('"')
	first := true
	badAt, pos := -1, 0
	if p.r != nil && p.bad > 0 && p.r.Chance(p.bad) {
		badAt = p.r.Intn(utf8.RuneCountInString(s) + 1)
		p.injected++
	}
	for _, ru := range s { // s is valid UTF-8 in every generated text
		if pos == badAt {
			b.WriteString(common.Pick(p.r, badUTF8))
			badAt = -1
		}
		pos++
		useU := false
		if force && first {
			useU = true
		} else if !plain && p.r != nil && p.r.Chance(p.esc) {
			useU = true
		}
		first = false
		switch {
		case useU:
			escaped = true
			writeU(b, ru, p.r)
		case ru == '"':
			escaped = true
			b.WriteString(`\"`)
		case ru == '\\':
			escaped = true
			b.WriteString(`\\`)
		case ru < 0x20:
			escaped = true
			short := map[rune]string{'\n': `\n`, '\t': `\t`, '\r': `\r`, '\b': `\b`, '\f': `\f`}
			if sh, ok := short[ru]; ok && (p.r == nil || p.r.Bool()) {
				b.WriteString(sh)
			} else {
				writeU(b, ru, p.r)
			}
		case ru == '/' && !plain && p.r != nil && p.r.Chance(20):
			escaped = true
			b.WriteString(`\/`)
		default:
			b.WriteRune(ru)
		}
	}
	if badAt >= 0 { // at the end of the string
		b.WriteString(common.Pick(p.r, badUTF8))
	}
	b.WriteByte('"')
	return
}

func writeU(b *bytes.Buffer, ru rune, r *common.Rand) {
	one := func(v uint16) {
		h := fmt.Sprintf("%04x", v)
		if r != nil && r.Bool() {
			h = strings.ToUpper(h)
		}
		b.WriteString(`\u` + h)
	}
	if ru >= 0x10000 {
		ru -= 0x10000
		one(uint16(0xD800 + (ru >> 10)))
		one(uint16(0xDC00 + (ru & 0x3FF)))
		return
	}
	one(uint16(ru))
}

func (p *printStyle) print(j JV) []byte {
	var b bytes.Buffer
	if p.lead {
		if p.r != nil {
			b.WriteString(p.wsPiece())
		} else {
			b.WriteByte(' ')
		}
	}
	p.value(&b, j, true)
	if p.r != nil && p.r.Chance(p.ws) {
		b.WriteString(p.wsPiece())
	}
	return b.Bytes()
}

func (p *printStyle) value(b *bytes.Buffer, j JV, top bool) {
	switch j.T {
	case 'z', 0:
		b.WriteString("null")
	case 'b':
		if j.B {
			b.WriteString("true")
		} else {
			b.WriteString("false")
		}
	case 'i':
		if j.Neg {
			b.WriteByte('-')
		}
		b.WriteString(j.Mag)
	case 'f':
		b.WriteString(j.Lit)
	case 's':
		p.str(b, j.S, false, false)
	case 'a':
		b.WriteByte('[')
		for i, x := range j.A {
			if i > 0 {
				p.gap(b)
				b.WriteByte(',')
			}
			p.gap(b)
			if top && i == 0 && x.T == 's' {
				bad := p.bad
				if p.noLabel {
					p.bad = 0
				}
				p.labelEscaped = p.str(b, x.S, !p.labelEsc, p.labelEsc)
				p.bad = bad
			} else {
				p.value(b, x, false)
			}
		}
		p.gap(b)
		b.WriteByte(']')
	case 'o':
		b.WriteByte('{')
		for i, m := range j.O {
			if i > 0 {
				p.gap(b)
				b.WriteByte(',')
			}
			p.gap(b)
			p.str(b, m.K, false, false)
			p.gap(b)
			b.WriteByte(':')
			p.gap(b)
			p.value(b, m.V, false)
		}
		p.gap(b)
		b.WriteByte('}')
	}
}

// ---------------------------------------------------------------------------
// reading valid JSON text back into a JV (token level; Go's own tokenizer, so
// strings arrive as encoding/json delivers them to the decoders)

func parseJV(text []byte, maxDepth, maxSize int) (JV, bool) {
	if !json.Valid(text) {
		return JV{}, false
	}
	dec := json.NewDecoder(bytes.NewReader(text))
	dec.UseNumber()
	budget := maxSize
	v, ok := readJV(dec, maxDepth, &budget)
	if !ok {
		return JV{}, false
	}
	if _, err := dec.Token(); err != io.EOF {
		return JV{}, false
	}
	return v, true
}

func readJV(dec *json.Decoder, depth int, budget *int) (JV, bool) {
	tok, err := dec.Token()
	if err != nil {
		return JV{}, false
	}
	return readJVFrom(dec, tok, depth, budget)
}

func readJVFrom(dec *json.Decoder, tok json.Token, depth int, budget *int) (JV, bool) {
	*budget--
	if *budget < 0 || depth <= 0 {
		return JV{}, false
	}
	switch t := tok.(type) {
	case nil:
		return jNull(), true
	case bool:
		return jBool(t), true
	case string:
		return jStr(t), true
	case json.Number:
		lit := string(t)
		if strings.ContainsAny(lit, ".eE") {
			return jFrac(lit), true
		}
		if strings.HasPrefix(lit, "-") {
			return jIntLit(true, lit[1:]), true
		}
		return jIntLit(false, lit), true
	case json.Delim:
		switch t {
		case '[':
			out := JV{T: 'a', A: []JV{}}
			for dec.More() {
				x, ok := readJV(dec, depth-1, budget)
				if !ok {
					return JV{}, false
				}
				out.A = append(out.A, x)
			}
			if _, err := dec.Token(); err != nil {
				return JV{}, false
			}
			return out, true
		case '{':
			out := JV{T: 'o', O: []JMember{}}
			for dec.More() {
				kt, err := dec.Token()
				if err != nil {
					return JV{}, false
				}
				k, ok := kt.(string)
				if !ok {
					return JV{}, false
				}
				x, ok := readJV(dec, depth-1, budget)
				if !ok {
					return JV{}, false
				}
				out.O = append(out.O, JMember{k, x})
			}
			if _, err := dec.Token(); err != nil {
				return JV{}, false
			}
			return out, true
		}
	}
	return JV{}, false
}

// token-level facts the label regexp depends on
func leadingWS(text []byte) bool {
	return len(text) > 0 && (text[0] == ' ' || text[0] == '\t' || text[0] == '\n' || text[0] == '\r')
}

// labelSpelledWithEscape: the text is valid JSON; is its value an array whose
// first element is a string written with a backslash?
func labelSpelledWithEscape(text []byte) bool {
	i := 0
	skip := func() {
		for i < len(text) && (text[i] == ' ' || text[i] == '\t' || text[i] == '\n' || text[i] == '\r') {
			i++
		}
	}
	skip()
	if i >= len(text) || text[i] != '[' {
		return false
	}
	i++
	skip()
	if i >= len(text) || text[i] != '"' {
		return false
	}
	i++
	for i < len(text) && text[i] != '"' {
		if text[i] == '\\' {
			return true
		}
		i++
	}
	return false
}

// ---------------------------------------------------------------------------
// XVal: Go values of the wire types, every nil kept

type XEvent struct {
	ID      HStr       `json:"id"`
	PK      HStr       `json:"pk"`
	TS      int64      `json:"ts"`
	Kind    int64      `json:"kind"`
	Tags    *[]*[]HStr `json:"tags"`
	Content HStr       `json:"content"`
	Sig     HStr       `json:"sig"`
}

type XTagCond struct {
	K HStr    `json:"k"`
	V *[]HStr `json:"v"`
}

type XFilter struct {
	IDs     *[]HStr     `json:"ids"`
	Authors *[]HStr     `json:"authors"`
	Kinds   *[]int64    `json:"kinds"`
	Tags    *[]XTagCond `json:"tags"` // sorted by key
	Since   *int64      `json:"since"`
	Until   *int64      `json:"until"`
	Limit   *int64      `json:"limit"`
}

// T: event filter cevent creq cclose cauth ccount seose sevent snotice sok sauth scount sclosed
type XVal struct {
	T      string     `json:"t"`
	E      *XEvent    `json:"e"`
	F      *XFilter   `json:"f"`
	Sub    HStr       `json:"sub"`
	Fs     []*XFilter `json:"fs"`
	ID     HStr       `json:"id"`
	Acc    bool       `json:"acc"`
	Msg    HStr       `json:"msg"`
	Pfx    HStr       `json:"pfx"`
	Count  string     `json:"count"` // uint64 in decimal
	Approx *bool      `json:"approx"`
}

var allTypes = []string{"event", "filter", "cevent", "creq", "cclose", "cauth", "ccount",
	"seose", "sevent", "snotice", "sok", "sauth", "scount", "sclosed"}
var clientTypes = []string{"cevent", "creq", "cclose", "cauth", "ccount"}

func hs(ss []string) []HStr {
	out := make([]HStr, len(ss))
	for i, s := range ss {
		out[i] = HStr(s)
	}
	return out
}
func ss(hsv []HStr) []string {
	out := make([]string, len(hsv))
	for i, s := range hsv {
		out[i] = string(s)
	}
	return out
}

func xEventOf(e *mocrelay.Event) *XEvent {
	if e == nil {
		return nil
	}
	x := &XEvent{ID: HStr(e.ID), PK: HStr(e.Pubkey), TS: e.CreatedAt, Kind: e.Kind, Content: HStr(e.Content), Sig: HStr(e.Sig)}
	if e.Tags != nil {
		tags := make([]*[]HStr, len(e.Tags))
		for i, t := range e.Tags {
			if t != nil {
				v := hs(t)
				tags[i] = &v
			}
		}
		x.Tags = &tags
	}
	return x
}

func (x *XEvent) event() *mocrelay.Event {
	if x == nil {
		return nil
	}
	e := &mocrelay.Event{ID: string(x.ID), Pubkey: string(x.PK), CreatedAt: x.TS, Kind: x.Kind, Content: string(x.Content), Sig: string(x.Sig)}
	if x.Tags != nil {
		e.Tags = make([]mocrelay.Tag, len(*x.Tags))
		for i, t := range *x.Tags {
			if t != nil {
				e.Tags[i] = mocrelay.Tag(ss(*t))
			}
		}
	}
	return e
}

func xFilterOf(f *mocrelay.ReqFilter) *XFilter {
	if f == nil {
		return nil
	}
	x := &XFilter{Since: f.Since, Until: f.Until, Limit: f.Limit}
	if f.IDs != nil {
		v := hs(f.IDs)
		x.IDs = &v
	}
	if f.Authors != nil {
		v := hs(f.Authors)
		x.Authors = &v
	}
	if f.Kinds != nil {
		v := append([]int64{}, f.Kinds...)
		x.Kinds = &v
	}
	if f.Tags != nil {
		tcs := make([]XTagCond, 0, len(f.Tags))
		for k, vals := range f.Tags {
			tc := XTagCond{K: HStr(k)}
			if vals != nil {
				v := hs(vals)
				tc.V = &v
			}
			tcs = append(tcs, tc)
		}
		sort.Slice(tcs, func(i, j int) bool { return tcs[i].K < tcs[j].K })
		x.Tags = &tcs
	}
	return x
}

func (x *XFilter) filter() *mocrelay.ReqFilter {
	if x == nil {
		return nil
	}
	f := &mocrelay.ReqFilter{Since: x.Since, Until: x.Until, Limit: x.Limit}
	if x.IDs != nil {
		f.IDs = ss(*x.IDs)
	}
	if x.Authors != nil {
		f.Authors = ss(*x.Authors)
	}
	if x.Kinds != nil {
		f.Kinds = append([]int64{}, (*x.Kinds)...)
	}
	if x.Tags != nil {
		f.Tags = map[string][]string{}
		for _, tc := range *x.Tags {
			if tc.V == nil {
				f.Tags[string(tc.K)] = nil
			} else {
				f.Tags[string(tc.K)] = ss(*tc.V)
			}
		}
	}
	return f
}

func xFiltersOf(fs []*mocrelay.ReqFilter) []*XFilter {
	out := make([]*XFilter, len(fs))
	for i, f := range fs {
		out[i] = xFilterOf(f)
	}
	return out
}

func filtersOf(xs []*XFilter) []*mocrelay.ReqFilter {
	if len(xs) == 0 {
		return nil
	}
	out := make([]*mocrelay.ReqFilter, len(xs))
	for i, x := range xs {
		out[i] = x.filter()
	}
	return out
}

// newTarget: pointer to a zero value of the Go type named t
func newTarget(t string) any {
	switch t {
	case "event":
		return new(mocrelay.Event)
	case "filter":
		return new(mocrelay.ReqFilter)
	case "cevent":
		return new(mocrelay.ClientEventMsg)
	case "creq":
		return new(mocrelay.ClientReqMsg)
	case "cclose":
		return new(mocrelay.ClientCloseMsg)
	case "cauth":
		return new(mocrelay.ClientAuthMsg)
	case "ccount":
		return new(mocrelay.ClientCountMsg)
	case "seose":
		return new(mocrelay.ServerEOSEMsg)
	case "sevent":
		return new(mocrelay.ServerEventMsg)
	case "snotice":
		return new(mocrelay.ServerNoticeMsg)
	case "sok":
		return new(mocrelay.ServerOKMsg)
	case "sauth":
		return new(mocrelay.ServerAuthMsg)
	case "scount":
		return new(mocrelay.ServerCountMsg)
	case "sclosed":
		return new(mocrelay.ServerClosedMsg)
	}
	panic("unknown type " + t)
}

// toX: the Go value behind p (a pointer as made by newTarget / fromX / ParseClientMsg)
func toX(p any) XVal {
	switch v := p.(type) {
	case *mocrelay.Event:
		return XVal{T: "event", E: xEventOf(v)}
	case *mocrelay.ReqFilter:
		return XVal{T: "filter", F: xFilterOf(v)}
	case *mocrelay.ClientEventMsg:
		return XVal{T: "cevent", E: xEventOf(v.Event)}
	case *mocrelay.ClientReqMsg:
		return XVal{T: "creq", Sub: HStr(v.SubscriptionID), Fs: xFiltersOf(v.ReqFilters)}
	case *mocrelay.ClientCloseMsg:
		return XVal{T: "cclose", Sub: HStr(v.SubscriptionID)}
	case *mocrelay.ClientAuthMsg:
		return XVal{T: "cauth", E: xEventOf(v.Event)}
	case *mocrelay.ClientCountMsg:
		return XVal{T: "ccount", Sub: HStr(v.SubscriptionID), Fs: xFiltersOf(v.ReqFilters)}
	case *mocrelay.ServerEOSEMsg:
		return XVal{T: "seose", Sub: HStr(v.SubscriptionID)}
	case *mocrelay.ServerEventMsg:
		return XVal{T: "sevent", Sub: HStr(v.SubscriptionID), E: xEventOf(v.Event)}
	case *mocrelay.ServerNoticeMsg:
		return XVal{T: "snotice", Msg: HStr(v.Message)}
	case *mocrelay.ServerOKMsg:
		return XVal{T: "sok", ID: HStr(v.EventID), Acc: v.Accepted, Msg: HStr(v.Msg), Pfx: HStr(v.MsgPrefix)}
	case *mocrelay.ServerAuthMsg:
		return XVal{T: "sauth", Msg: HStr(v.Challenge)}
	case *mocrelay.ServerCountMsg:
		return XVal{T: "scount", Sub: HStr(v.SubscriptionID), Count: strconv.FormatUint(v.Count, 10), Approx: v.Approximate}
	case *mocrelay.ServerClosedMsg:
		return XVal{T: "sclosed", Sub: HStr(v.SubscriptionID), Msg: HStr(v.Msg), Pfx: HStr(v.MsgPrefix)}
	}
	panic(fmt.Sprintf("toX: %T", p))
}

func fromX(x XVal) any {
	switch x.T {
	case "event":
		if x.E == nil {
			return new(mocrelay.Event)
		}
		return x.E.event()
	case "filter":
		if x.F == nil {
			return new(mocrelay.ReqFilter)
		}
		return x.F.filter()
	case "cevent":
		return &mocrelay.ClientEventMsg{Event: x.E.event()}
	case "creq":
		return &mocrelay.ClientReqMsg{SubscriptionID: string(x.Sub), ReqFilters: filtersOf(x.Fs)}
	case "cclose":
		return &mocrelay.ClientCloseMsg{SubscriptionID: string(x.Sub)}
	case "cauth":
		return &mocrelay.ClientAuthMsg{Event: x.E.event()}
	case "ccount":
		return &mocrelay.ClientCountMsg{SubscriptionID: string(x.Sub), ReqFilters: filtersOf(x.Fs)}
	case "seose":
		return &mocrelay.ServerEOSEMsg{SubscriptionID: string(x.Sub)}
	case "sevent":
		return &mocrelay.ServerEventMsg{SubscriptionID: string(x.Sub), Event: x.E.event()}
	case "snotice":
		return &mocrelay.ServerNoticeMsg{Message: string(x.Msg)}
	case "sok":
		return &mocrelay.ServerOKMsg{EventID: string(x.ID), Accepted: x.Acc, Msg: string(x.Msg), MsgPrefix: string(x.Pfx)}
	case "sauth":
		return &mocrelay.ServerAuthMsg{Challenge: string(x.Msg)}
	case "scount":
		c, _ := strconv.ParseUint(x.Count, 10, 64)
		return &mocrelay.ServerCountMsg{SubscriptionID: string(x.Sub), Count: c, Approximate: x.Approx}
	case "sclosed":
		return &mocrelay.ServerClosedMsg{SubscriptionID: string(x.Sub), Msg: string(x.Msg), MsgPrefix: string(x.Pfx)}
	}
	panic("fromX: " + x.T)
}

// ---------------------------------------------------------------------------
// running the real code under recover()

type Obs struct {
	R string `json:"r"` // "val" | "err" | "panic"
	V *XVal  `json:"v,omitempty"`
	P string `json:"p,omitempty"` // panic text (informative)
}

func decodeAs(t string, text []byte) (o Obs) {
	defer func() {
		if r := recover(); r != nil {
			o = Obs{R: "panic", P: fmt.Sprint(r)}
		}
	}()
	p := newTarget(t)
	if err := json.Unmarshal(text, p); err != nil {
		return Obs{R: "err"}
	}
	x := toX(p)
	return Obs{R: "val", V: &x}
}

func parseClient(text []byte) (o Obs) {
	defer func() {
		if r := recover(); r != nil {
			o = Obs{R: "panic", P: fmt.Sprint(r)}
		}
	}()
	m, err := mocrelay.ParseClientMsg(text)
	if err != nil {
		return Obs{R: "err"}
	}
	x := toX(m)
	return Obs{R: "val", V: &x}
}

// marshal: nil result = Marshal failed or panicked
func marshal(p any) (text []byte, panicked bool) {
	defer func() {
		if r := recover(); r != nil {
			text, panicked = nil, true
		}
	}()
	b, err := json.Marshal(p)
	if err != nil {
		return nil, false
	}
	return b, false
}

func validClient(p any) (valid bool, panicked bool) {
	defer func() {
		if r := recover(); r != nil {
			valid, panicked = false, true
		}
	}()
	m, ok := p.(mocrelay.ClientMsg)
	if !ok {
		return false, false
	}
	return mocrelay.ValidClientMsg(m), false
}

func hexOf(b []byte) string { return hex.EncodeToString(b) }

// textOf: hex, or for long texts made of one repeated opener and closer
// "rep:<n>:<hex prefix>:<hex opener>:<hex middle>:<hex closer>:<hex suffix>"
func textOf(b []byte) string {
	if len(b) < 4096 {
		return hexOf(b)
	}
	for _, oc := range [][2]string{{"[", "]"}, {`{"a":`, "}"}} {
		i := bytes.Index(b, []byte(oc[0]+oc[0]+oc[0]+oc[0]))
		if i < 0 {
			continue
		}
		n := 0
		k := i
		for bytes.HasPrefix(b[k:], []byte(oc[0])) {
			n++
			k += len(oc[0])
		}
		e := bytes.Index(b[k:], []byte(strings.Repeat(oc[1], n)))
		if e < 0 {
			continue
		}
		mid := b[k : k+e]
		suf := b[k+e+n*len(oc[1]):]
		return fmt.Sprintf("rep:%d:%s:%s:%s:%s:%s", n, hexOf(b[:i]), hexOf([]byte(oc[0])), hexOf(mid), hexOf([]byte(oc[1])), hexOf(suf))
	}
	return hexOf(b)
}

func unhex(s string) []byte {
	if strings.HasPrefix(s, "rep:") {
		f := strings.Split(s, ":")
		if len(f) != 7 {
			common.Fatalf("bad rep text")
		}
		n, err := strconv.Atoi(f[1])
		if err != nil {
			common.Fatalf("bad rep count")
		}
		var b []byte
		b = append(b, unhex(f[2])...)
		b = append(b, bytes.Repeat(unhex(f[3]), n)...)
		b = append(b, unhex(f[4])...)
		b = append(b, bytes.Repeat(unhex(f[5]), n)...)
		b = append(b, unhex(f[6])...)
		return b
	}
	b, err := hex.DecodeString(s)
	if err != nil {
		common.Fatalf("bad hex in case: %v", err)
	}
	return b
}

func validUTF8(s string) bool { return utf8.ValidString(s) }
