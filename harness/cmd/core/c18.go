package main

// C18: the stateful middlewares (subscription quota, receive-side and
// send-side unique filters), alone and stacked, with 1..6 sessions sharing ONE
// middleware value (one Handler value): histories over {REQ,CLOSE}x{a,b,c},
// client EVENTx{x,y,z}, server EVENTx{x,y,z} (+ a few EOSE/CLOSED/other
// messages), N and window size in {1,2,3}.  Sessions are advanced one
// operation at a time in an interleaving chosen by the harness (deterministic).
// The driver is the one of c17.go.

import (
	"encoding/json"
	"time"

	"github.com/high-moctane/mocrelay"
	"verif/harness/common"
)

type c18Case struct {
	Mws   []mwSpec `json:"mws"` // outermost first
	NSess int      `json:"nsess"`
	Ops   []mwOp   `json:"ops"`
	Now   int64    `json:"now"`
	Obs   []mwObs  `json:"obs"`
}

func c18Run(c *c18Case) {
	c.Now = time.Now().Unix()
	ms := make([]mocrelay.Middleware, len(c.Mws))
	for i, s := range c.Mws {
		ms[i] = mwBuild(s)
	}
	h := mwCompose(ms)(mwDown{}) // ONE handler value for all sessions
	if c.NSess < 1 {
		c.NSess = 1
	}
	c.Obs = mwRunSessions(h, c.NSess, c.Ops, c.Now)
}

var c18Subs = []string{"a", "b", "c"}
var c18Evs = []string{"x", "y", "z"}

func c18Event(r *common.Rand, id string) *mwEvent {
	return &mwEvent{ID: id, PK: "pa", DTS: 0, Kind: 1, Tags: [][]string{}, Content: common.Pick(r, []string{"", "hi"})}
}

func c18Op(r *common.Rand, kinds map[string]bool) mwOp {
	// weights follow the middlewares present so that their boundaries are crossed often
	wReq, wEv, wSEv := 10, 10, 10
	if kinds["max_subs"] {
		wReq = 45
	}
	if kinds["recv_unique"] {
		wEv = 40
	}
	if kinds["send_unique"] {
		wSEv = 40
	}
	total := wReq + wEv + wSEv + 8
	k := r.Intn(total)
	switch {
	case k < wReq:
		if r.Chance(62) {
			return mwOp{D: "c", C: &mwCMsg{T: "REQ", Sub: common.Pick(r, c18Subs), Fs: []common.JFilter{}}}
		}
		return mwOp{D: "c", C: &mwCMsg{T: "CLOSE", Sub: common.Pick(r, c18Subs)}}
	case k < wReq+wEv:
		return mwOp{D: "c", C: &mwCMsg{T: "EVENT", E: c18Event(r, common.Pick(r, c18Evs))}}
	case k < wReq+wEv+wSEv:
		return mwOp{D: "s", M: &mwSMsg{T: "EVENT", Sub: common.Pick(r, c18Subs), E: c18Event(r, common.Pick(r, c18Evs))}}
	}
	// the rest: messages that must not touch any of the three states
	switch r.Intn(6) {
	case 0:
		return mwOp{D: "s", M: &mwSMsg{T: "EOSE", Sub: common.Pick(r, c18Subs)}}
	case 1:
		return mwOp{D: "s", M: &mwSMsg{T: "CLOSED", Sub: common.Pick(r, c18Subs), Prefix: "error: ", Msg: "closed by relay"}}
	case 2:
		return mwOp{D: "c", C: &mwCMsg{T: "COUNT", Sub: common.Pick(r, c18Subs), Fs: []common.JFilter{}}}
	case 3:
		return mwOp{D: "c", C: &mwCMsg{T: "AUTH", E: c18Event(r, common.Pick(r, c18Evs))}}
	case 4:
		return mwOp{D: "s", M: &mwSMsg{T: "OK", ID: common.Pick(r, c18Evs), Acc: true}}
	default:
		return mwOp{D: "s", M: &mwSMsg{T: "NOTICE", Msg: "n"}}
	}
}

var c18Kinds = []string{"max_subs", "recv_unique", "send_unique"}

func c18Gen(root *common.Rand, i int) c18Case {
	r := root.Fork(uint64(i))
	var c c18Case
	kinds := map[string]bool{}
	if i%5 < 3 {
		t := c18Kinds[(i/5)%3]
		kinds[t] = true
		c.Mws = []mwSpec{{T: t, N: int64(1 + (i/15)%3)}}
	} else {
		// a stack of two or three different stateful middlewares in a random order,
		// sometimes with a stateless limit in between
		perm := []string{"max_subs", "recv_unique", "send_unique"}
		for j := len(perm) - 1; j > 0; j-- {
			k := r.Intn(j + 1)
			perm[j], perm[k] = perm[k], perm[j]
		}
		n := 2 + r.Intn(2)
		for _, t := range perm[:n] {
			kinds[t] = true
			c.Mws = append(c.Mws, mwSpec{T: t, N: int64(1 + r.Intn(3))})
			if r.Chance(15) {
				c.Mws = append(c.Mws, mwSpec{T: "max_filters", N: 2})
			}
		}
	}
	c.NSess = 1
	if r.Chance(65) {
		c.NSess = 1 + r.Intn(6)
	}
	n := 4 + r.Intn(9)
	if r.Chance(25) {
		n += 6 + r.Intn(10)
	}
	n = n * (1 + (c.NSess-1)/2)
	if n > 40 {
		n = 40
	}
	for j := 0; j < n; j++ {
		op := c18Op(r, kinds)
		op.S = r.Intn(c.NSess)
		c.Ops = append(c.Ops, op)
	}
	return c
}

func init() {
	subcmds["c18"] = func(seed uint64, n int, out *common.Out, replay string) {
		if replay != "" {
			for _, raw := range common.ReadLines(replay) {
				var c c18Case
				if err := json.Unmarshal(raw, &c); err != nil {
					common.Fatalf("bad replay case: %v", err)
				}
				c18Run(&c)
				out.Emit(c)
			}
			return
		}
		root := common.NewRand(seed)
		done := 0
		if n >= c18ExhaustiveFrom {
			// thorough tier: finite sub-spaces first, exhaustively
			done = c18Exhaustive(func(c c18Case) {
				c18Run(&c)
				out.Emit(c)
			})
		}
		for i := 0; i < n-done; i++ {
			c := c18Gen(root, i)
			c18Run(&c)
			out.Emit(c)
		}
	}
}

// c18ExhaustiveFrom: case counts from which the run starts with the exhaustive
// block (the thorough tier asks for 120000).
const c18ExhaustiveFrom = 100000

// c18Exhaustive enumerates, for one session and one middleware:
//
//	quota N=1..3:        every history of length 0..5 over {REQ,CLOSE}x{a,b,c}
//	receive window 1..3: every history of length 0..8 over client EVENTx{x,y,z}
//	send window 1..3:    every history of length 0..8 over server EVENTx{x,y,z}
func c18Exhaustive(emit func(c18Case)) int {
	total := 0
	r := common.NewRand(1)
	var rec func(kind string, n int64, alpha []mwOp, maxLen int, cur []mwOp)
	rec = func(kind string, n int64, alpha []mwOp, maxLen int, cur []mwOp) {
		ops := make([]mwOp, len(cur))
		for i, o := range cur { // fresh message values per case
			ops[i] = o
			if o.C != nil {
				c := *o.C
				if c.E != nil {
					e := *c.E
					c.E = &e
				}
				ops[i].C = &c
			}
			if o.M != nil {
				m := *o.M
				if m.E != nil {
					e := *m.E
					m.E = &e
				}
				ops[i].M = &m
			}
		}
		emit(c18Case{Mws: []mwSpec{{T: kind, N: n}}, NSess: 1, Ops: ops})
		total++
		if len(cur) == maxLen {
			return
		}
		for _, a := range alpha {
			rec(kind, n, alpha, maxLen, append(cur[:len(cur):len(cur)], a))
		}
	}
	var qa, ra, sa []mwOp
	for _, s := range c18Subs {
		qa = append(qa, mwOp{D: "c", C: &mwCMsg{T: "REQ", Sub: s, Fs: []common.JFilter{}}})
		qa = append(qa, mwOp{D: "c", C: &mwCMsg{T: "CLOSE", Sub: s}})
	}
	for _, id := range c18Evs {
		ra = append(ra, mwOp{D: "c", C: &mwCMsg{T: "EVENT", E: c18Event(r, id)}})
		sa = append(sa, mwOp{D: "s", M: &mwSMsg{T: "EVENT", Sub: "a", E: c18Event(r, id)}})
	}
	for n := int64(1); n <= 3; n++ {
		rec("max_subs", n, qa, 5, nil)
		rec("recv_unique", n, ra, 8, nil)
		rec("send_unique", n, sa, 8, nil)
	}
	return total
}
