package main

// C18: the stateful middlewares (subscription quota, receive-side and
// send-side unique filters), alone and stacked, with 1..6 connections sharing
// ONE middleware value (one Handler value): histories over {REQ,CLOSE}x{a,b,c},
// client EVENTx{x,y,z}, server EVENTx{x,y,z}, the downstream's OK (accepted
// or not) for an event id (+ a few EOSE/CLOSED/other messages), N and window
// size in {1,2,3}.  The event behind an id is fixed per case; its kind is drawn
// from every class of NIP-01 including the class boundaries.  Connections are
// advanced one operation at a time in an interleaving chosen by the harness
// (deterministic); in a third of the cases they come and go: a connection ends
// with whatever it opened still open, and another begins afterwards on the
// same middleware value.  The driver is the one of c17.go.

import (
	"encoding/json"
	"strings"
	"time"

	"github.com/high-moctane/mocrelay"
	"verif/harness/common"
)

type c18Case struct {
	Mws   []mwSpec `json:"mws"` // outermost first
	NSess int      `json:"nsess"`
	Ops   []mwOp   `json:"ops"`
	Now   int64    `json:"now"`
	Obs   []mwObs  `json:"obs"`
}

func c18Run(c *c18Case) {
	c.Now = time.Now().Unix()
	ms := make([]mocrelay.Middleware, len(c.Mws))
	for i, s := range c.Mws {
		ms[i] = mwBuild(s)
	}
	h := mwCompose(ms)(mwDown{}) // ONE handler value for all sessions
	if c.NSess < 1 {
		c.NSess = 1
	}
	c.Ops = mwNormalize(c.NSess, c.Ops)
	c.Obs = mwRunSessions(h, c.NSess, c.Ops, c.Now)
}

var c18Subs = []string{"a", "b", "c"}
var c18Evs = []string{"x", "y", "z"}

// kinds of every class of NIP-01 (regular, replaceable, ephemeral,
// addressable) with both sides of every class boundary
var c18EvKinds = []int64{0, 1, 3, 5, 9999, 10000, 19999, 20000, 20001, 29999, 30000, 39999, 40000}

type c18Ctx struct {
	r      *common.Rand
	kinds  map[string]bool  // middlewares present
	evKind map[string]int64 // the event behind an id is fixed per case
}

func c18Event(r *common.Rand, id string) *mwEvent {
	return &mwEvent{ID: id, PK: "pa", DTS: 0, Kind: 1, Tags: [][]string{}, Content: common.Pick(r, []string{"", "hi"})}
}

func (x *c18Ctx) event(id string) *mwEvent {
	e := c18Event(x.r, id)
	if k, ok := x.evKind[id]; ok {
		e.Kind = k
	}
	return e
}

func c18NewCtx(r *common.Rand, kinds map[string]bool) *c18Ctx {
	x := &c18Ctx{r: r, kinds: kinds, evKind: map[string]int64{}}
	for _, id := range c18Evs {
		x.evKind[id] = 1
		if r.Chance(50) {
			x.evKind[id] = common.Pick(r, c18EvKinds)
		}
	}
	return x
}

func (x *c18Ctx) op() mwOp {
	r := x.r
	// weights follow the middlewares present so that their boundaries are crossed often
	wReq, wEv, wSEv, wOK := 10, 10, 10, 6
	if x.kinds["max_subs"] {
		wReq = 45
	}
	if x.kinds["recv_unique"] {
		wEv = 40
		wOK = 14 // the downstream answers the events that reached it
	}
	if x.kinds["send_unique"] {
		wSEv = 40
	}
	total := wReq + wEv + wSEv + wOK + 8
	k := r.Intn(total)
	switch {
	case k < wReq:
		if r.Chance(62) {
			return mwOp{D: "c", C: &mwCMsg{T: "REQ", Sub: common.Pick(r, c18Subs), Fs: []common.JFilter{}}}
		}
		return mwOp{D: "c", C: &mwCMsg{T: "CLOSE", Sub: common.Pick(r, c18Subs)}}
	case k < wReq+wEv:
		return mwOp{D: "c", C: &mwCMsg{T: "EVENT", E: x.event(common.Pick(r, c18Evs))}}
	case k < wReq+wEv+wSEv:
		return mwOp{D: "s", M: &mwSMsg{T: "EVENT", Sub: common.Pick(r, c18Subs), E: x.event(common.Pick(r, c18Evs))}}
	case k < wReq+wEv+wSEv+wOK:
		// the downstream handler's answer to an EVENT: accepted, or refused for one of the
		// protocol's reasons (the event is already stored, rate limit, policy, storage error)
		m := &mwSMsg{T: "OK", ID: common.Pick(r, c18Evs), Acc: r.Chance(40)}
		if !m.Acc {
			m.Prefix = common.Pick(r, []string{"duplicate: ", "rate-limited: ", "blocked: ", "error: ", ""})
			m.Msg = "refused"
		}
		return mwOp{D: "s", M: m}
	}
	// the rest: messages that must not touch any of the three states
	switch r.Intn(5) {
	case 0:
		return mwOp{D: "s", M: &mwSMsg{T: "EOSE", Sub: common.Pick(r, c18Subs)}}
	case 1:
		return mwOp{D: "s", M: &mwSMsg{T: "CLOSED", Sub: common.Pick(r, c18Subs), Prefix: "error: ", Msg: "closed by relay"}}
	case 2:
		return mwOp{D: "c", C: &mwCMsg{T: "COUNT", Sub: common.Pick(r, c18Subs), Fs: []common.JFilter{}}}
	case 3:
		return mwOp{D: "c", C: &mwCMsg{T: "AUTH", E: x.event(common.Pick(r, c18Evs))}}
	default:
		return mwOp{D: "s", M: &mwSMsg{T: "NOTICE", Msg: "n"}}
	}
}

var c18Kinds = []string{"max_subs", "recv_unique", "send_unique"}

// ids as they really are: 64 hex digits that agree on their first 16, 32 or 63 digits, and ids that are
// prefixes of one another; subscription ids of the maximal length (64) and beyond that share their first 64 bytes
var c18LongEvs = []string{
	"0123456789abcdef" + strings.Repeat("a", 48), "0123456789abcdef" + strings.Repeat("b", 48),
	"0123456789abcdef0123456789abcdef0123456789abcdef0123456789abcde0",
	"0123456789abcdef0123456789abcdef0123456789abcdef0123456789abcde1",
}
var c18LongSubs = []string{strings.Repeat("s", 64), strings.Repeat("s", 64) + "a", strings.Repeat("s", 64) + "b"}

func c18Gen(root *common.Rand, i int) c18Case {
	r := root.Fork(uint64(i))
	c18Evs, c18Subs = []string{"x", "y", "z"}, []string{"a", "b", "c"}
	switch r.Intn(12) {
	case 0:
		c18Evs = c18LongEvs[:3]
	case 1:
		c18Evs = []string{c18LongEvs[2], c18LongEvs[3], c18LongEvs[0]}
	case 2:
		c18Evs = []string{"x", "xx", "xxx"}
	case 3:
		c18Subs = c18LongSubs
	}
	var c c18Case
	kinds := map[string]bool{}
	if i%5 < 3 {
		t := c18Kinds[(i/5)%3]
		kinds[t] = true
		c.Mws = []mwSpec{{T: t, N: int64(1 + (i/15)%3)}}
	} else {
		// a stack of two or three different stateful middlewares in a random order,
		// sometimes with a stateless limit in between
		perm := []string{"max_subs", "recv_unique", "send_unique"}
		for j := len(perm) - 1; j > 0; j-- {
			k := r.Intn(j + 1)
			perm[j], perm[k] = perm[k], perm[j]
		}
		n := 2 + r.Intn(2)
		for _, t := range perm[:n] {
			kinds[t] = true
			c.Mws = append(c.Mws, mwSpec{T: t, N: int64(1 + r.Intn(3))})
			if r.Chance(15) {
				c.Mws = append(c.Mws, mwSpec{T: "max_filters", N: 2})
			}
		}
	}
	x := c18NewCtx(r, kinds)
	n := 4 + r.Intn(9)
	if r.Chance(25) {
		n += 6 + r.Intn(10)
	}
	if r.Chance(33) {
		// connections come and go: up to 6 slots, 3 connections at a time
		n = n * 2
		if n > 40 {
			n = 40
		}
		c.Ops, c.NSess = mwSchedule(r, 6, 3, n, 20, x.op)
		return c
	}
	c.NSess = 1
	if r.Chance(65) {
		c.NSess = 1 + r.Intn(6)
	}
	n = n * (1 + (c.NSess-1)/2)
	if n > 40 {
		n = 40
	}
	for j := 0; j < c.NSess; j++ {
		c.Ops = append(c.Ops, mwOp{S: j, D: "start"})
	}
	for j := 0; j < n; j++ {
		op := x.op()
		op.S = r.Intn(c.NSess)
		c.Ops = append(c.Ops, op)
	}
	return c
}

func init() {
	subcmds["c18"] = func(seed uint64, n int, out *common.Out, replay string) {
		if replay != "" {
			for _, raw := range common.ReadLines(replay) {
				var c c18Case
				if err := json.Unmarshal(raw, &c); err != nil {
					common.Fatalf("bad replay case: %v", err)
				}
				c18Run(&c)
				out.Emit(c)
			}
			return
		}
		root := common.NewRand(seed)
		done := 0
		if n >= c18ExhaustiveFrom {
			// thorough tier: finite sub-spaces first, exhaustively
			done = c18Exhaustive(func(c c18Case) {
				c18Run(&c)
				out.Emit(c)
			})
		}
		for i := 0; i < n-done; i++ {
			c := c18Gen(root, i)
			c18Run(&c)
			out.Emit(c)
		}
	}
}

// c18ExhaustiveFrom: case counts from which the run starts with the exhaustive
// block (the thorough tier asks for 120000).
const c18ExhaustiveFrom = 100000

// c18Exhaustive enumerates, for one session and one middleware:
//
//	quota N=1..3:        every history of length 0..5 over {REQ,CLOSE}x{a,b,c}
//	receive window 1..3: every history of length 0..8 over client EVENTx{x,y,z}
//	send window 1..3:    every history of length 0..8 over server EVENTx{x,y,z}
func c18Exhaustive(emit func(c18Case)) int {
	total := 0
	r := common.NewRand(1)
	var rec func(kind string, n int64, alpha []mwOp, maxLen int, cur []mwOp)
	rec = func(kind string, n int64, alpha []mwOp, maxLen int, cur []mwOp) {
		ops := make([]mwOp, len(cur))
		for i, o := range cur { // fresh message values per case
			ops[i] = o
			if o.C != nil {
				c := *o.C
				if c.E != nil {
					e := *c.E
					c.E = &e
				}
				ops[i].C = &c
			}
			if o.M != nil {
				m := *o.M
				if m.E != nil {
					e := *m.E
					m.E = &e
				}
				ops[i].M = &m
			}
		}
		emit(c18Case{Mws: []mwSpec{{T: kind, N: n}}, NSess: 1, Ops: ops})
		total++
		if len(cur) == maxLen {
			return
		}
		for _, a := range alpha {
			rec(kind, n, alpha, maxLen, append(cur[:len(cur):len(cur)], a))
		}
	}
	var qa, ra, sa []mwOp
	for _, s := range c18Subs {
		qa = append(qa, mwOp{D: "c", C: &mwCMsg{T: "REQ", Sub: s, Fs: []common.JFilter{}}})
		qa = append(qa, mwOp{D: "c", C: &mwCMsg{T: "CLOSE", Sub: s}})
	}
	for _, id := range c18Evs {
		ra = append(ra, mwOp{D: "c", C: &mwCMsg{T: "EVENT", E: c18Event(r, id)}})
		sa = append(sa, mwOp{D: "s", M: &mwSMsg{T: "EVENT", Sub: "a", E: c18Event(r, id)}})
	}
	for n := int64(1); n <= 3; n++ {
		rec("max_subs", n, qa, 5, nil)
		rec("recv_unique", n, ra, 8, nil)
		rec("send_unique", n, sa, 8, nil)
	}
	return total
}
