package main

import (
	"encoding/json"

	"github.com/high-moctane/mocrelay"
	"verif/harness/common"
)

// C02: Match / LimitMatch / Done of the real matchers.

type c02Case struct {
	K     string           `json:"k"` // "match" | "seq"
	E     *common.JEvent   `json:"e,omitempty"`
	Fs    []common.JFilter `json:"fs"`
	Es    []common.JEvent  `json:"es,omitempty"`
	Per   []bool           `json:"per,omitempty"`
	Any   bool             `json:"any"`
	Done0 bool             `json:"done0"`
	Steps [][2]bool        `json:"steps,omitempty"`
	// Mod: the filter values handed to the matchers no longer say what they said
	Mod bool `json:"mod,omitempty"`
}

func c02Run(c *c02Case) {
	switch c.K {
	case "match":
		// the same filter values are turned into matchers twice (one by one, then as a list), as a relay hands
		// one REQ to its router, its cache and its merge handler
		ev := c.E.ToEvent()
		fs := common.ToFilters(c.Fs)
		c.Per = make([]bool, len(c.Fs))
		for i := range fs {
			c.Per[i] = mocrelay.NewReqFilterMatcher(fs[i]).Match(ev)
		}
		c.Any = mocrelay.NewReqFiltersEventLimitMatcher(fs).Match(ev)
		c.Mod = !common.FiltersIntact(fs, c.Fs)
	case "seq":
		fs := common.ToFilters(c.Fs)
		mocrelay.NewReqFiltersEventLimitMatcher(fs) // a first matcher over the same filter values, not used
		m := mocrelay.NewReqFiltersEventLimitMatcher(fs)
		c.Done0 = m.Done()
		c.Steps = make([][2]bool, len(c.Es))
		for i, je := range c.Es {
			lm := m.LimitMatch(je.ToEvent())
			c.Steps[i] = [2]bool{lm, m.Done()}
		}
		c.Mod = !common.FiltersIntact(fs, c.Fs)
	}
}

func init() {
	subcmds["c02"] = func(seed uint64, n int, out *common.Out, replay string) {
		if replay != "" {
			for _, raw := range common.ReadLines(replay) {
				var c c02Case
				if err := json.Unmarshal(raw, &c); err != nil {
					common.Fatalf("bad replay case: %v", err)
				}
				c02Run(&c)
				out.Emit(c)
			}
			return
		}
		root := common.NewRand(seed)
		u := common.Small
		u.Extreme = 6 // created_at, since and until at the ends of int64
		for i := 0; i < n; i++ {
			r := root.Fork(uint64(i))
			var c c02Case
			if i == 0 {
				// one long run: a limit in the thousands is a limit like any other (Done flips at the limit-th match)
				c.K = "seq"
				c.Fs = []common.JFilter{{Kinds: common.Ptr([]int64{1}), Limit: common.Ptr(int64(5003))}}
				for j := 0; j < 5006; j++ {
					c.Es = append(c.Es, common.JEvent{ID: "i1", PK: "pa", TS: int64(j % 7), Kind: 1, Tags: [][]string{}})
				}
				c02Run(&c)
				out.Emit(c)
				continue
			}
			if i%10 < 7 {
				c.K = "match"
				e := u.Event(r, -1)
				c.E = &e
				nf := r.Intn(5)
				sel := []int{15, 35, 60}[r.Intn(3)]
				for j := 0; j < nf; j++ {
					c.Fs = append(c.Fs, u.Filter(r, sel))
				}
				if c.Fs == nil {
					c.Fs = []common.JFilter{}
				}
			} else {
				c.K = "seq"
				nf := r.Intn(4)
				sel := []int{10, 25, 45}[r.Intn(3)]
				c.Fs = []common.JFilter{}
				for j := 0; j < nf; j++ {
					f := u.Filter(r, sel)
					if r.Chance(70) && f.Limit == nil {
						f.Limit = common.Ptr(int64(r.Intn(4)))
					}
					c.Fs = append(c.Fs, f)
				}
				ne := r.Intn(13)
				for j := 0; j < ne; j++ {
					c.Es = append(c.Es, u.Event(r, -1))
				}
			}
			c02Run(&c)
			out.Emit(c)
		}
	}
}
