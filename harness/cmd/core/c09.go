package main

// C09: merged EVENT and COUNT.  Histories for the driver in merge_driver.go:
// up to four requests in flight; every child answers every request once, in the
// order in which it received requests with that id; the replies are interleaved
// at random.  In "overlap" histories (40%) a request may re-use an id that is
// still in flight (the class of finding K1, repaired by per-child FIFO queues);
// the other histories keep the ids of simultaneous requests distinct, while
// ids are re-used one after the other.
//
// REQ traffic shares the id space with the requests: client REQ and CLOSE
// messages (and child EOSEs) carry the ids of the EVENT and COUNT requests that
// are in flight, COUNT subscription ids are also used by live REQ subscriptions.
// A CLOSE or a REQ must not disturb the aggregation of an OK or a COUNT.  Beside
// the random histories, c09CloseInterleavings() enumerates, for one request and
// every order of its replies, a client CLOSE / REQ with the request's id at
// every position of the history.
//
// One handler value serves every connection of a relay: c09TwoSessions() and
// c09GenerateMulti() run two or three sessions on the SAME NewMergeHandler
// result, with requests of the same id in flight on several sessions and the
// children's replies interleaved across the sessions; every session is judged
// on its own.

import (
	"encoding/json"
	"fmt"

	"verif/harness/common"
)

type c09Req struct {
	count   bool
	id      string
	replied []bool
}

var c09Prefixes = []string{"", "", "blocked: ", "invalid: ", "duplicate: ", "error: "}
var c09Texts = []string{"", "m1", "bad signature", "x"}

func c09Reply(r *common.Rand, q *c09Req) *mMsg {
	if q.count {
		m := &mMsg{T: "count", Sub: q.id, C: uint64(r.Intn(5))}
		if r.Chance(8) {
			// counts are uint64: the upper half of the range is lost by a signed comparison
			m.C = common.Pick(r, []uint64{1<<63 - 1, 1 << 63, 1<<63 + 10, 1<<64 - 2, 1<<64 - 1})
		}
		switch r.Intn(4) {
		case 0:
			m.Approx = common.Ptr(true)
		case 1:
			m.Approx = common.Ptr(false)
		}
		return m
	}
	m := &mMsg{T: "ok", ID: q.id, Acc: r.Chance(60)}
	m.P = common.Pick(r, c09Prefixes)
	m.Msg = common.Pick(r, c09Texts)
	return m
}

func c09Generate(r *common.Rand, overlap bool) mCase {
	n := []int{2, 2, 2, 3, 3, 4}[r.Intn(6)]
	if r.Chance(4) {
		// many children (slices.SortFunc and friends change algorithm above 12 elements)
		n = 13 + r.Intn(4)
	}
	c := c09GenerateN(r, overlap, n)
	if n >= 3 && n <= 4 && r.Chance(25) {
		c.Nest = 2 + r.Intn(n-2) // a nested merge handler in front of the remaining children
	}
	// single-session histories: now and then a child emits two or three of its messages in one go, with no
	// sentinel in between (the sentinel is itself a message that reaches the client)
	if r.Chance(50) {
		for k := 0; k+1 < len(c.Steps); k++ {
			if a, b := &c.Steps[k], c.Steps[k+1]; a.K == "child" && b.K == "child" && a.I == b.I && r.Chance(60) {
				a.Join = true
			}
		}
	}
	return c
}

// c09GenerateMulti: two or three sessions of ONE handler value.  Every session
// gets a history of its own from c09GenerateN (same number of children, the
// same small id universes, so that the sessions have requests with the same id
// in flight at the same time, answered differently by "their" children); the
// histories are interleaved at random.
func c09GenerateMulti(r *common.Rand) mCase {
	n := []int{2, 2, 2, 3, 3, 4}[r.Intn(6)]
	k := 2
	if r.Chance(25) {
		k = 3
	}
	cs := make([]mCase, k)
	for j := range cs {
		cs[j] = c09GenerateN(r.Fork(uint64(j)), r.Chance(30), n)
	}
	return mergeInterleave(r.Fork(99), cs)
}

// c09TwoSessions: two sessions of one handler, two children, the same request
// (EVENT q resp. COUNT q) submitted on both, then the four replies in all 24
// orders.  The children answer differently on the two sessions (child 0
// rejects on session 0 only; the counts differ), so an aggregate that mixes
// the sessions, or comes out on the other session, shows.  Part of every tier.
func c09TwoSessions() []mCase {
	var out []mCase
	const q = "q"
	type rep struct{ s, ch int }
	reps := []rep{{0, 0}, {0, 1}, {1, 0}, {1, 1}}
	for _, count := range []bool{false, true} {
		for _, perm := range permutations(4) {
			c := mCase{N: 2, Sess: 2}
			for s := 0; s < 2; s++ {
				if count {
					c.Steps = append(c.Steps, mStep{K: "count", Sub: q, S: s})
				} else {
					c.Steps = append(c.Steps, mStep{K: "event", ID: q, S: s})
				}
			}
			for _, k := range perm {
				rp := reps[k]
				var m *mMsg
				if count {
					m = &mMsg{T: "count", Sub: q, C: uint64([][]int{{3, 7}, {5, 1}}[rp.s][rp.ch])}
				} else if rp.s == 0 && rp.ch == 0 {
					m = &mMsg{T: "ok", ID: q, Acc: false, P: "blocked: ", Msg: "b0"}
				} else {
					m = &mMsg{T: "ok", ID: q, Acc: true}
				}
				c.Steps = append(c.Steps, mStep{K: "child", I: rp.ch, S: rp.s, M: m})
			}
			out = append(out, c)
		}
	}
	return out
}

func c09GenerateN(r *common.Rand, overlap bool, n int) mCase {
	c := mCase{N: n}
	ids := []string{"x1", "x2", "x3"}
	subs := []string{"c1", "c2"}
	total := 1 + r.Intn(5)
	if overlap && total < 2 {
		total = 2
	}
	maxFlight := 1 + r.Intn(4)
	var flight []*c09Req
	issued := 0
	inFlight := func(count bool, id string) bool {
		for _, q := range flight {
			if q.count == count && q.id == id {
				return true
			}
		}
		return false
	}
	cut := r.Chance(8) // a history that stops while replies are outstanding
	for steps := 0; steps < 60; steps++ {
		if issued >= total && len(flight) == 0 {
			break
		}
		if cut && issued >= total && r.Chance(25) {
			break
		}
		newReq := issued < total && len(flight) < maxFlight && (len(flight) == 0 || r.Chance(40))
		if newReq {
			count := r.Chance(35)
			univ := ids
			if count {
				univ = subs
			}
			var cand []string
			for _, x := range univ {
				if !inFlight(count, x) {
					cand = append(cand, x)
				}
			}
			var id string
			if overlap && len(flight) > 0 && r.Chance(60) {
				// re-use an id that is in flight (same kind of request)
				var same []string
				for _, q := range flight {
					if q.count == count {
						same = append(same, q.id)
					}
				}
				if len(same) > 0 {
					id = common.Pick(r, same)
				}
			}
			if id == "" {
				if len(cand) == 0 {
					newReq = false
				} else {
					id = common.Pick(r, cand)
				}
			}
			if newReq {
				issued++
				flight = append(flight, &c09Req{count: count, id: id, replied: make([]bool, n)})
				if count {
					c.Steps = append(c.Steps, mStep{K: "count", Sub: id})
				} else {
					c.Steps = append(c.Steps, mStep{K: "event", ID: id})
				}
				continue
			}
		}
		switch x := r.Intn(100); {
		case x < 5: // an unsolicited (late, repeated) reply: nobody waits for the id, or not for this child
			q := &c09Req{count: r.Chance(40)}
			univ := append([]string{"x9"}, ids...)
			if q.count {
				univ = append([]string{"c9"}, subs...)
			}
			q.id = common.Pick(r, univ)
			ch := r.Intn(n)
			if inFlight(q.count, q.id) {
				// a surplus reply: only from a child that has answered every request in flight
				// with this id (the reply is then dropped, like an unsolicited one)
				surplus := true
				for _, f := range flight {
					if f.count == q.count && f.id == q.id && !f.replied[ch] {
						surplus = false
					}
				}
				if !surplus {
					continue
				}
			}
			c.Steps = append(c.Steps, mStep{K: "child", I: ch, M: c09Reply(r, q)})
			continue
		case x < 22: // REQ traffic, mostly under the ids of the requests in flight
			// the id: one of a request in flight (EVENT id or COUNT subscription id), one of
			// the COUNT universe (so that a live subscription and a later COUNT share it), or
			// an unrelated one
			sid := "s1"
			switch y := r.Intn(10); {
			case y < 6 && len(flight) > 0:
				sid = flight[r.Intn(len(flight))].id
			case y < 9:
				sid = common.Pick(r, subs)
			}
			switch y := r.Intn(10); {
			case y < 3:
				c.Steps = append(c.Steps, mStep{K: "req", Sub: sid, Fs: []common.JFilter{{}}})
			case y < 7:
				c.Steps = append(c.Steps, mStep{K: "close", Sub: sid})
			case y < 9:
				c.Steps = append(c.Steps, mStep{K: "child", I: r.Intn(n), M: &mMsg{T: "eose", Sub: sid}})
			default:
				c.Steps = append(c.Steps, mStep{K: "child", I: r.Intn(n), M: &mMsg{T: "notice", Msg: "hello"}})
			}
			continue
		}
		if len(flight) == 0 {
			continue
		}
		// a child answers: the oldest request of that id it has not answered yet
		i := r.Intn(n)
		var pick *c09Req
		start := r.Intn(len(flight))
		for k := 0; k < len(flight) && pick == nil; k++ {
			q := flight[(start+k)%len(flight)]
			if q.replied[i] {
				continue
			}
			// FIFO per child and id: take the first unanswered request with this id
			for _, q2 := range flight {
				if q2.count == q.count && q2.id == q.id && !q2.replied[i] {
					pick = q2
					break
				}
			}
		}
		if pick == nil {
			continue
		}
		pick.replied[i] = true
		c.Steps = append(c.Steps, mStep{K: "child", I: i, M: c09Reply(r, pick)})
		done := true
		for _, b := range pick.replied {
			done = done && b
		}
		if done {
			for k, q := range flight {
				if q == pick {
					flight = append(flight[:k], flight[k+1:]...)
					break
				}
			}
		}
	}
	return c
}

// ---- exhaustive sub-space (thorough tier) --------------------------------
// n = 2, two EVENTs with distinct ids in flight: all 24 orders of the four
// replies x all 16 verdict combinations; n = 3, one EVENT: all 6 reply orders
// x all 8 verdict combinations; the same for COUNT with counts from {0,1,2}
// (n = 2, one request: 2 orders x 9 combinations; n = 3: 6 orders x 27).

func permutations(k int) [][]int {
	if k == 0 {
		return [][]int{{}}
	}
	var out [][]int
	for _, p := range permutations(k - 1) {
		for pos := 0; pos <= len(p); pos++ {
			q := append(append(append([]int{}, p[:pos]...), k-1), p[pos:]...)
			out = append(out, q)
		}
	}
	return out
}

// c09CloseInterleavings: one request (EVENT or COUNT, id q) answered once by
// every child, for n = 2 (both reply orders) and n = 3 (three reply orders),
// with one client CLOSE q resp. REQ q inserted at every position from just
// before the request to after the last reply; once with no subscription q, once
// with a live subscription q whose merged EOSE is out, once with one whose EOSE
// is still pending.  The replies disagree (verdicts, counts) so that a lost or
// mixed aggregate shows.  Part of every tier (276 short histories).
func c09CloseInterleavings() []mCase {
	var out []mCase
	const q = "q"
	orders := map[int][][]int{2: {{0, 1}, {1, 0}}, 3: {{0, 1, 2}, {2, 1, 0}, {1, 2, 0}}}
	for _, n := range []int{2, 3} {
		for _, count := range []bool{true, false} {
			for _, ord := range orders[n] {
				var base []mStep
				if count {
					base = append(base, mStep{K: "count", Sub: q})
				} else {
					base = append(base, mStep{K: "event", ID: q})
				}
				for _, ch := range ord {
					var m *mMsg
					if count {
						m = &mMsg{T: "count", Sub: q, C: uint64([]int{3, 7, 5}[ch])}
					} else {
						m = &mMsg{T: "ok", ID: q, Acc: ch != 1, P: []string{"", "blocked: ", ""}[ch], Msg: []string{"", "b1", "m2"}[ch]}
					}
					base = append(base, mStep{K: "child", I: ch, M: m})
				}
				for prefix := 0; prefix < 3; prefix++ {
					var pre []mStep
					if prefix > 0 {
						pre = append(pre, mStep{K: "req", Sub: q, Fs: []common.JFilter{{}}})
						for ch := 0; ch < n; ch++ {
							if prefix == 2 && ch == n-1 {
								break // the last child's EOSE stays outstanding
							}
							pre = append(pre, mStep{K: "child", I: ch, M: &mMsg{T: "eose", Sub: q}})
						}
					}
					for _, ins := range []string{"close", "req"} {
						for pos := 0; pos <= len(base); pos++ {
							st := mStep{K: ins, Sub: q}
							if ins == "req" {
								st.Fs = []common.JFilter{{}}
							}
							c := mCase{N: n}
							c.Steps = append(c.Steps, pre...)
							c.Steps = append(c.Steps, base[:pos]...)
							c.Steps = append(c.Steps, st)
							c.Steps = append(c.Steps, base[pos:]...)
							out = append(out, c)
						}
					}
				}
			}
		}
	}
	return out
}

func c09Exhaustive() []mCase {
	var out []mCase
	reason := func(child int, acc bool) (string, string) {
		if acc {
			return "", ""
		}
		return []string{"blocked: ", "invalid: ", "error: "}[child], []string{"b0", "i1", "e2"}[child]
	}
	// n = 2, ids x1 and x2 in flight together
	type rep struct {
		child int
		id    string
	}
	reps := []rep{{0, "x1"}, {0, "x2"}, {1, "x1"}, {1, "x2"}}
	for _, perm := range permutations(4) {
		for v := 0; v < 16; v++ {
			c := mCase{N: 2, Steps: []mStep{{K: "event", ID: "x1"}, {K: "event", ID: "x2"}}}
			for _, k := range perm {
				acc := v&(1<<k) != 0
				p, m := reason(reps[k].child, acc)
				c.Steps = append(c.Steps, mStep{K: "child", I: reps[k].child, M: &mMsg{T: "ok", ID: reps[k].id, Acc: acc, P: p, Msg: m}})
			}
			out = append(out, c)
		}
	}
	// n = 3, one EVENT
	for _, perm := range permutations(3) {
		for v := 0; v < 8; v++ {
			c := mCase{N: 3, Steps: []mStep{{K: "event", ID: "x1"}}}
			for _, k := range perm {
				acc := v&(1<<k) != 0
				p, m := reason(k, acc)
				c.Steps = append(c.Steps, mStep{K: "child", I: k, M: &mMsg{T: "ok", ID: "x1", Acc: acc, P: p, Msg: m}})
			}
			out = append(out, c)
		}
	}
	// COUNT, n = 2 and n = 3, counts from {0,1,2}
	for _, nn := range []int{2, 3} {
		combos := 1
		for i := 0; i < nn; i++ {
			combos *= 3
		}
		for _, perm := range permutations(nn) {
			for v := 0; v < combos; v++ {
				c := mCase{N: nn, Steps: []mStep{{K: "count", Sub: "c1"}}}
				for _, k := range perm {
					cnt := v
					for j := 0; j < k; j++ {
						cnt /= 3
					}
					c.Steps = append(c.Steps, mStep{K: "child", I: k, M: &mMsg{T: "count", Sub: "c1", C: uint64(cnt % 3)}})
				}
				out = append(out, c)
			}
		}
	}
	return out
}

// c09JoinedTwins: the same EVENT id (resp. COUNT subscription id) submitted twice, every child gives the same
// answer to both; the children other than "last" answer both one after the other, then child "last" emits its two
// answers in one go.  Two identical merged replies are due, next to each other on the wire, with nothing in
// between.  n = 2, 3, every choice of the last child, answers accept / reject / counts 0 and 7: 20 histories.
func c09JoinedTwins() []mCase {
	var out []mCase
	for _, count := range []bool{false, true} {
		for _, n := range []int{2, 3} {
			for last := 0; last < n; last++ {
				for variant := 0; variant < 2; variant++ {
					c := mCase{N: n}
					id := "x1"
					reply := func() *mMsg {
						if count {
							return &mMsg{T: "count", Sub: "c1", C: uint64(7 * variant)}
						}
						if variant == 0 {
							return &mMsg{T: "ok", ID: id, Acc: true}
						}
						return &mMsg{T: "ok", ID: id, Acc: false, P: "blocked: ", Msg: "no"}
					}
					for k := 0; k < 2; k++ {
						if count {
							c.Steps = append(c.Steps, mStep{K: "count", Sub: "c1"})
						} else {
							c.Steps = append(c.Steps, mStep{K: "event", ID: id})
						}
					}
					for i := 0; i < n; i++ {
						if i != last {
							c.Steps = append(c.Steps, mStep{K: "child", I: i, M: reply()}, mStep{K: "child", I: i, M: reply()})
						}
					}
					c.Steps = append(c.Steps, mStep{K: "child", I: last, M: reply(), Join: true}, mStep{K: "child", I: last, M: reply()})
					out = append(out, c)
				}
			}
		}
	}
	return out
}

// c09LateReader: 20..40 EVENT / COUNT requests with ids of their own are submitted; then every child answers all
// of them, in the order they were submitted, from a goroutine of its own, while the client does not read for a
// while (mCase.Block).  Every request must get its merged reply, in the order of submission.
func c09LateReader(r *common.Rand) mCase {
	n := 2 + r.Intn(2)
	c := mCase{N: n}
	m := 20 + r.Intn(21)
	type req struct {
		count bool
		id    string
	}
	var reqs []req
	for j := 0; j < m; j++ {
		q := req{count: r.Chance(30), id: fmt.Sprintf("q%d", j)}
		reqs = append(reqs, q)
		if q.count {
			c.Steps = append(c.Steps, mStep{K: "count", Sub: q.id})
		} else {
			c.Steps = append(c.Steps, mStep{K: "event", ID: q.id})
		}
	}
	c.Block = len(c.Steps)
	for i := 0; i < n; i++ {
		for _, q := range reqs {
			c.Steps = append(c.Steps, mStep{K: "child", I: i, M: c09Reply(r, &c09Req{count: q.count, id: q.id})})
		}
	}
	return c
}

func init() {
	subcmds["c09"] = func(seed uint64, n int, out *common.Out, replay string) {
		if mergeWorkerMode() {
			mergeWorker()
			return
		}
		var cases []mCase
		if replay != "" {
			for _, raw := range common.ReadLines(replay) {
				var c mCase
				if err := json.Unmarshal(raw, &c); err != nil {
					common.Fatalf("bad replay case: %v", err)
				}
				cases = append(cases, c)
			}
		} else {
			root := common.NewRand(seed)
			// 40% of the histories may re-use an id that is still in flight; they come last
			firstOverlap := n - n*2/5
			cases = append(cases, c09CloseInterleavings()...)
			cases = append(cases, c09TwoSessions()...)
			cases = append(cases, c09JoinedTwins()...)
			late := root.Fork(1 << 43)
			for i := 0; i < 6; i++ {
				cases = append(cases, c09LateReader(late.Fork(uint64(i))))
			}
			if n >= mergeExhaustiveFrom {
				cases = append(cases, c09Exhaustive()...)
			}
			for i := 0; i < n; i++ {
				cases = append(cases, c09Generate(root.Fork(uint64(i)), i >= firstOverlap))
			}
			// one handler value serving several sessions: n/8 more histories
			multi := root.Fork(1 << 40)
			for i := 0; i < n/8; i++ {
				cases = append(cases, c09GenerateMulti(multi.Fork(uint64(i))))
			}
		}
		for _, c := range runMergeAll("c09", cases) {
			out.Emit(c)
		}
	}
}
