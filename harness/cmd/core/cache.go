package main

import (
	"encoding/json"
	"fmt"
	"reflect"
	"strconv"
	"strings"

	"github.com/high-moctane/mocrelay"
	"verif/harness/common"
)

// C03 / C04 / C05: histories of insertions into the real EventCache with a
// listing and queries after every step.

type cacheQuery struct {
	Fs  []common.JFilter `json:"fs"`
	Out []string         `json:"out"` // ids, in the order returned
}

type cacheStep struct {
	E     string       `json:"e"` // id of the pool event offered
	Added bool         `json:"added"`
	Len   int          `json:"len"`
	List  []string     `json:"list"`
	DLen  int          `json:"dlen"`
	TLen  int          `json:"tlen"`
	ILen  int          `json:"ilen"`
	Qs    []cacheQuery `json:"qs"`
	Panic string       `json:"panic,omitempty"`
}

type cacheCase struct {
	Cap   int                      `json:"cap"`
	Pool  map[string]common.JEvent `json:"pool"`
	Steps []cacheStep              `json:"steps"`
}

func idsOf(evs []*mocrelay.Event) []string {
	out := make([]string, len(evs))
	for i, e := range evs {
		out[i] = e.ID
	}
	return out
}

func cacheRun(c *cacheCase) {
	cache := mocrelay.NewEventCache(c.Cap)
	// one pointer per pool event, as a relay would hold one decoded event
	ptr := map[string]*mocrelay.Event{}
	for id, je := range c.Pool {
		ptr[id] = je.ToEvent()
	}
	var lastFs []*mocrelay.ReqFilter
	for i := range c.Steps {
		st := &c.Steps[i]
		func() {
			defer func() {
				if r := recover(); r != nil {
					st.Panic = fmt.Sprint(r)
				}
			}()
			ev := ptr[st.E]
			if ev == nil {
				common.Fatalf("step refers to unknown pool event %q", st.E)
			}
			// a fresh pointer for a re-offered event, as a second decode would give
			cp := *ev
			st.Added = cache.Add(&cp)
			st.Len = cache.Len()
			st.List = idsOf(cache.Find([]*mocrelay.ReqFilter{{}}))
			st.DLen = mocrelay.VerifCacheDeletedLen(cache)
			st.TLen = mocrelay.VerifCacheTreeLen(cache)
			st.ILen = mocrelay.VerifCacheIndexLen(cache)
			for j := range st.Qs {
				// a query that repeats the one before it is asked with the very same filter values (a client
				// library that keeps its filters): asking must not use up the caller's filters
				if j == 0 || !reflect.DeepEqual(st.Qs[j].Fs, st.Qs[j-1].Fs) || lastFs == nil {
					lastFs = common.ToFilters(cacheCopyFilters(st.Qs[j].Fs))
				}
				st.Qs[j].Out = idsOf(cache.Find(lastFs))
				if !common.FiltersIntact(lastFs, st.Qs[j].Fs) {
					st.Panic = "Find rewrote the filters it was given"
					lastFs = nil
				}
			}
		}()
		if st.List == nil {
			st.List = []string{}
		}
		for j := range st.Qs {
			if st.Qs[j].Out == nil {
				st.Qs[j].Out = []string{}
			}
		}
	}
}

// cacheCopyFilters: the Go filters get integers of their own, so that nothing the store does to them shows
// up in the recorded case
func cacheCopyFilters(fs []common.JFilter) []common.JFilter {
	out := make([]common.JFilter, len(fs))
	for i, f := range fs {
		if f.Since != nil {
			f.Since = common.Ptr(*f.Since)
		}
		if f.Until != nil {
			f.Until = common.Ptr(*f.Until)
		}
		if f.Limit != nil {
			f.Limit = common.Ptr(*f.Limit)
		}
		out[i] = f
	}
	return out
}

var cacheAuthors = []string{"pa", "pb", "pc"}

var cacheLongVal = strings.Repeat("L", 300)

func cacheGenPool(r *common.Rand, n int, mode string) (map[string]common.JEvent, []string) {
	pool := map[string]common.JEvent{}
	ids := make([]string, n)
	for i := range ids {
		ids[i] = "e" + strconv.Itoa(i)
	}
	kindsByMode := map[string][]int64{
		"c03": {1, 1, 4, 0, 10000, 30000, 30000, 5},
		"c04": {1, 0, 0, 3, 10000, 30000, 30000, 30001, 20000, 5},
		"c05": {1, 1, 0, 30000, 30000, 5, 5, 5},
	}
	kinds := kindsByMode[mode]
	dvals := []string{"", "a", "b", "A", "x:y"} // (a d value may contain a colon)
	evs := make([]common.JEvent, n)
	// one pool in eight has events whose created_at lies at the ends of int64 (a comparison written as
	// a subtraction, or through time.Unix, orders those wrongly)
	extreme := r.Chance(12)
	for i := 0; i < n; i++ {
		e := common.JEvent{ID: ids[i], PK: common.Pick(r, cacheAuthors), TS: int64(r.Intn(7)), Kind: common.Pick(r, kinds), Tags: [][]string{}}
		if extreme && r.Chance(35) {
			e.TS = common.Pick(r, common.ExtremeTS)
		}
		if r.Chance(6) {
			// long tag values that agree on their first 128 bytes (and more) and differ at the end
			e.Tags = append(e.Tags, []string{"t", cacheLongVal + common.Pick(r, []string{"a", "b"})})
		}
		if r.Chance(8) {
			// kinds at the borders of the classes (regular < 10000 <= replaceable < 20000 <= ephemeral < 30000 <=
			// addressable < 40000 <= regular), and the special replaceable kinds 0 and 3
			e.Kind = common.Pick(r, []int64{2, 4, 9999, 10001, 19999, 29999, 39999, 40000, 40001, 65535})
		}
		// ordinary tags (for the index)
		for k := r.Intn(3); k > 0; k-- {
			switch r.Intn(5) {
			case 0:
				e.Tags = append(e.Tags, []string{"t", common.Pick(r, []string{"x", "y"})})
			case 1:
				e.Tags = append(e.Tags, []string{"p", common.Pick(r, cacheAuthors)})
			case 2:
				e.Tags = append(e.Tags, []string{"t"})
			case 3:
				e.Tags = append(e.Tags, []string{"p", common.Pick(r, cacheAuthors), "extra"})
			case 4:
				e.Tags = append(e.Tags, []string{"long", "x"})
			}
		}
		// a repeated single-letter tag whose value nobody else carries, followed by a further tag:
		// the index key of the repetition is met twice when the event leaves the store
		if r.Chance(18) {
			u := "u" + strconv.Itoa(i)
			name := common.Pick(r, []string{"p", "t"})
			e.Tags = append(e.Tags, []string{name, u}, []string{name, u}, []string{"t", common.Pick(r, []string{"x", "y"})})
			if r.Chance(30) {
				e.Tags = append(e.Tags, []string{"p", common.Pick(r, cacheAuthors)})
			}
		}
		if e.Kind >= 30000 && e.Kind < 40000 {
			switch r.Intn(12) {
			case 0: // no d tag at all
			case 1:
				e.Tags = append(e.Tags, []string{"d"})
			case 2:
				e.Tags = append(e.Tags, []string{"d", common.Pick(r, dvals)}, []string{"d", common.Pick(r, dvals)})
			case 3: // the first d tag has no value (d = ""), a later one has
				e.Tags = append(e.Tags, []string{"d"}, []string{"d", common.Pick(r, []string{"a", "b"})})
			case 4: // a valueless or empty first d tag after another tag
				e.Tags = append(e.Tags, []string{"t", "x"}, []string{"d", ""}, []string{"d", common.Pick(r, []string{"a", "b"})})
			default:
				e.Tags = append(e.Tags, []string{"d", common.Pick(r, dvals)})
			}
		}
		evs[i] = e
	}
	// deletion requests: references to pool ids (past and future), own id,
	// other requests, addresses of addressable events, junk
	for i := range evs {
		if evs[i].Kind != 5 {
			continue
		}
		nrefs := 1 + r.Intn(3)
		if r.Chance(20) {
			// a request that names another request of the pool first (mostly one of its own author) and
			// then further targets: removing the named request happens in the middle of this one's work
			var k5 []int
			for j := range evs {
				if j != i && evs[j].Kind == 5 {
					k5 = append(k5, j)
				}
			}
			if len(k5) > 0 {
				j := k5[r.Intn(len(k5))]
				if r.Chance(70) {
					evs[i].PK = evs[j].PK
				}
				evs[i].Tags = append(evs[i].Tags, []string{"e", ids[j]})
				if nrefs < 2 {
					nrefs = 2
				}
			}
		}
		for k := 0; k < nrefs; k++ {
			switch r.Intn(10) {
			case 0, 1, 2, 3: // e reference to some non-ephemeral pool event
				j := r.Intn(n)
				if evs[j].Kind >= 20000 && evs[j].Kind < 30000 {
					continue
				}
				t := []string{"e", ids[j]}
				if r.Chance(25) {
					t = append(t, "wss://relay")
				}
				if r.Chance(10) {
					t = append(t, "x", "y")
				}
				evs[i].Tags = append(evs[i].Tags, t)
			case 4: // self reference
				evs[i].Tags = append(evs[i].Tags, []string{"e", ids[i]})
			case 5, 6, 7: // address reference to an addressable address
				k := common.Pick(r, []int64{30000, 30001})
				pk := evs[i].PK
				if r.Chance(30) {
					pk = common.Pick(r, cacheAuthors)
				}
				t := []string{"a", strconv.FormatInt(k, 10) + ":" + pk + ":" + common.Pick(r, dvals)}
				if r.Chance(20) {
					t = append(t, "wss://relay")
				}
				evs[i].Tags = append(evs[i].Tags, t)
			case 8:
				evs[i].Tags = append(evs[i].Tags, []string{"e"})
			case 9:
				evs[i].Tags = append(evs[i].Tags, []string{"e", "nosuchid"})
			}
		}
	}
	// two requests of one author that share a target (and the first names something else as well): when the
	// first leaves, the shared target stays blocked and the other one must become free again
	if r.Chance(20) {
		for i := range evs {
			if evs[i].Kind != 5 {
				continue
			}
			var shared []string
			for _, t := range evs[i].Tags {
				if len(t) >= 2 && (t[0] == "e" || t[0] == "a") {
					shared = t[:2]
					break
				}
			}
			if shared == nil {
				continue
			}
			for j := range evs {
				if j != i && evs[j].Kind == 5 && r.Chance(50) {
					evs[j].PK = evs[i].PK
					evs[j].Tags = append([][]string{append([]string{}, shared...)}, evs[j].Tags...)
					break
				}
			}
			break
		}
	}
	// a request that names one of its targets twice (the same id with and without a relay hint, the same
	// address twice): its registry entries are met twice when it leaves
	for i := range evs {
		if evs[i].Kind == 5 && r.Chance(15) {
			var refs [][]string
			for _, t := range evs[i].Tags {
				if len(t) >= 2 && (t[0] == "e" || t[0] == "a") {
					refs = append(refs, t)
				}
			}
			if len(refs) > 0 {
				t := refs[r.Intn(len(refs))]
				evs[i].Tags = append(evs[i].Tags, []string{t[0], t[1], "wss://other"})
			}
		}
	}
	for i := range evs {
		pool[ids[i]] = evs[i]
	}
	return pool, ids
}

func cacheGenFilter(r *common.Rand, ids []string, sel int) common.JFilter {
	var f common.JFilter
	sub := func(xs []string, k int) []string {
		out := []string{}
		for i := 0; i < k; i++ {
			out = append(out, common.Pick(r, xs))
		}
		return out
	}
	if r.Chance(sel) {
		f.IDs = common.Ptr(sub(ids, r.Intn(4)))
	}
	if r.Chance(sel) {
		f.Authors = common.Ptr(sub(cacheAuthors, r.Intn(3)))
	}
	if r.Chance(sel) {
		ks := []int64{}
		for k := r.Intn(4); k > 0; k-- {
			ks = append(ks, common.Pick(r, []int64{0, 1, 4, 5, 10000, 30000, 30001, 40000}))
		}
		f.Kinds = &ks
	}
	if r.Chance(sel + 15) {
		tcs := []common.JTagCond{}
		names := []string{"t", "p", "t", "p", "d", "e", "a"}
		for k := 1 + r.Intn(2); k > 0 && len(names) > 0; k-- {
			i := r.Intn(len(names))
			var vals []string
			switch names[i] {
			case "t":
				vals = sub([]string{"x", "y", "", cacheLongVal + "a", cacheLongVal[:128]}, r.Intn(3))
			case "p":
				vals = sub(cacheAuthors, 1+r.Intn(2))
			case "d":
				vals = sub([]string{"", "a", "b", "A", "x:y"}, 1+r.Intn(2))
			case "e":
				vals = sub(ids, 1+r.Intn(2))
			case "a":
				vals = []string{"30000:" + common.Pick(r, cacheAuthors) + ":" + common.Pick(r, []string{"", "a", "b"})}
			}
			tcs = append(tcs, common.JTagCond{Name: names[i], Vals: vals})
			picked := names[i]
			var rest []string
			for _, nm := range names {
				if nm != picked {
					rest = append(rest, nm)
				}
			}
			names = rest
		}
		f.Tags = &tcs
	}
	if r.Chance(sel + 10) {
		f.Since = common.Ptr(int64(r.Intn(8)))
	}
	if r.Chance(sel + 10) {
		f.Until = common.Ptr(int64(r.Intn(8)))
	}
	if r.Chance(55) {
		f.Limit = common.Ptr(int64(r.Intn(4)))
	}
	return f
}

func cacheGen(r *common.Rand, mode string) cacheCase {
	npool := 4 + r.Intn(14)
	pool, ids := cacheGenPool(r, npool, mode)
	var c cacheCase
	c.Pool = pool
	switch r.Intn(6) {
	case 0:
		c.Cap = 100
	default:
		c.Cap = 1 + r.Intn(6)
	}
	// one history in five begins with a story: a request K1 (two references of its own) and an event X of the same
	// author are offered, then that author's request K2 naming K1 first and X after it
	var story []string
	if r.Chance(20) {
		var k5, others []string
		for _, id := range ids {
			switch e := pool[id]; {
			case e.Kind == 5:
				k5 = append(k5, id)
			case e.Kind < 20000 || e.Kind >= 30000:
				others = append(others, id)
			}
		}
		if len(k5) >= 2 && len(others) >= 2 {
			k1, k2, x, y := k5[0], k5[1], others[0], others[1]
			a := pool[k2].PK
			e1, e2, ex := pool[k1], pool[k2], pool[x]
			e1.PK, ex.PK = a, a
			e1.Tags = [][]string{{"e", y}, {"a", "30000:" + a + ":b"}}
			e2.Tags = [][]string{{"e", k1}, {"e", x}}
			if r.Bool() {
				e2.Tags = append(e2.Tags, []string{"e", y})
			}
			pool[k1], pool[k2], pool[x] = e1, e2, ex
			story = []string{k1, x, k2}
			if r.Bool() {
				story = []string{x, k1, k2}
			}
		}
	}
	nsteps := r.Intn(2 * npool)
	if nsteps < len(story) {
		nsteps = len(story)
	}
	if mode == "c03" && nsteps > 24 {
		nsteps = 24
	}
	nq := map[string]int{"c03": 3, "c04": 0, "c05": 0}[mode]
	var asked [][]common.JFilter
	askedID := ""
	for i := 0; i < nsteps; i++ {
		st := cacheStep{E: common.Pick(r, ids)}
		if r.Chance(12) && i > 0 { // re-offer an earlier event
			st.E = c.Steps[r.Intn(i)].E
		}
		if i < len(story) {
			st.E = story[i]
		} else if askedID != "" && r.Chance(50) {
			// right after a query that named an event by its id: a deletion request of the pool that names it too
			for _, id := range ids {
				if e := pool[id]; e.Kind == 5 {
					for _, t := range e.Tags {
						if len(t) >= 2 && t[0] == "e" && t[1] == askedID {
							st.E = id
						}
					}
				}
			}
		}
		askedID = ""
		nqs := nq
		if nq == 0 && r.Chance(30) {
			// the insertion histories of C04/C05 are interleaved with a few queries: reading must not
			// change what the following insertions and deletion requests find
			nqs = 1
		}
		for q := 0; q < nqs; q++ {
			nf := 1 + r.Intn(3)
			sel := []int{10, 30, 55}[r.Intn(3)]
			var fs []common.JFilter
			for k := 0; k < nf; k++ {
				fs = append(fs, cacheGenFilter(r, ids, sel))
			}
			if r.Chance(30) && i > 0 {
				// one filter with a single id, author or kind and a second condition: the candidates of the
				// first condition are cut down by the second
				var f common.JFilter
				ev := c.Pool[c.Steps[r.Intn(i)].E]
				switch r.Intn(3) {
				case 0:
					f.IDs = common.Ptr([]string{ev.ID})
					askedID = ev.ID
				case 1:
					f.Authors = common.Ptr([]string{ev.PK})
				default:
					f.Kinds = common.Ptr([]int64{ev.Kind})
				}
				switch r.Intn(3) {
				case 0:
					f.Kinds = common.Ptr([]int64{common.Pick(r, []int64{0, 1, 5, 30000})})
				case 1:
					f.Authors = common.Ptr([]string{common.Pick(r, cacheAuthors)})
				default:
					f.Tags = common.Ptr([]common.JTagCond{{Name: "t", Vals: []string{common.Pick(r, []string{"x", "y"})}}})
				}
				fs = []common.JFilter{f}
			} else if len(asked) > 0 && r.Chance(25) {
				// an earlier query again, with one condition fewer per filter
				fs = common.Relax(r, asked[r.Intn(len(asked))])
			}
			asked = append(asked, fs)
			st.Qs = append(st.Qs, cacheQuery{Fs: fs})
			if r.Chance(15) {
				st.Qs = append(st.Qs, cacheQuery{Fs: fs}) // the same query once more, with the same filter values
			}
		}
		if st.Qs == nil {
			st.Qs = []cacheQuery{}
		}
		c.Steps = append(c.Steps, st)
	}
	if c.Steps == nil {
		c.Steps = []cacheStep{}
	}
	return c
}

func cacheSub(mode string) subcmd {
	return func(seed uint64, n int, out *common.Out, replay string) {
		if replay != "" {
			for _, raw := range common.ReadLines(replay) {
				var c cacheCase
				if err := json.Unmarshal(raw, &c); err != nil {
					common.Fatalf("bad replay case: %v", err)
				}
				cacheRun(&c)
				out.Emit(c)
			}
			return
		}
		root := common.NewRand(seed)
		for i := 0; i < n; i++ {
			c := cacheGen(root.Fork(uint64(i)), mode)
			cacheRun(&c)
			out.Emit(c)
		}
	}
}

func init() {
	subcmds["c03"] = cacheSub("c03")
	subcmds["c04"] = cacheSub("c04")
	subcmds["c05"] = cacheSub("c05")
}
