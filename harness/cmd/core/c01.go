package main

// C01: Event.Serialize and Event.Verify of the real code on freshly signed
// events and on systematic alterations of them.
//
// Every case is one event that is handed to Serialize(), Verify() and Valid().
// It is described by a recipe (secret key, fields, one alteration); replay
// re-derives everything from the recipe.  The base event of a recipe is
// signed by this harness over SHA-256 of the NIP-01 canonical bytes produced
// by c01Canon below, which does not call Serialize.
//
// All byte strings travel as hex in the JSON.

import (
	"bytes"
	"crypto/sha256"
	"encoding/hex"
	"encoding/json"
	"math"
	"os"
	"strconv"
	"sync"
	"unicode/utf8"

	"github.com/btcsuite/btcd/btcec/v2"
	"github.com/btcsuite/btcd/btcec/v2/schnorr"
	"github.com/high-moctane/mocrelay"
	"verif/harness/common"
)

type c01Recipe struct {
	SK      string     `json:"sk"`  // 32-byte secret key (hex)
	SK2     string     `json:"sk2"` // a second key, for the pubkey swap
	TS      int64      `json:"ts"`
	Kind    int64      `json:"kind"`
	Tags    [][]string `json:"tags"`    // hex of each value
	Content string     `json:"content"` // hex
	Alt     string     `json:"alt"`     // alteration applied to the signed event
	N       int        `json:"n"`       // its parameter (index, bit number)
	Val     string     `json:"val"`     // its replacement value (hex)
	Cls     string     `json:"cls"`     // generator class of the content (statistics only)
}

type c01Event struct {
	ID      string     `json:"id"` // hex of the text
	PK      string     `json:"pk"`
	TS      int64      `json:"ts"`
	Kind    int64      `json:"kind"`
	Tags    [][]string `json:"tags"`
	Content string     `json:"content"`
	Sig     string     `json:"sig"`
}

type c01Case struct {
	// a sequence case: the events of Seq are handed to the real code one after the other,
	// in this order, in one process; R and the observation fields below are then unused
	Seq []c01Case `json:"seq,omitempty"`
	// Conc (sequence cases): after the events have been verified one after the other, they are verified again
	// all at the same time, 300 times each, by one goroutine per event (as a relay does for its connections); an
	// event's recorded verdict is then the first one that differed from its sequential verdict, if any did
	Conc bool      `json:"conc,omitempty"`
	R    c01Recipe `json:"r"`
	ev   *mocrelay.Event
	// the event that was checked, and what was observed
	E      c01Event `json:"e"`
	Ser    string   `json:"ser"`    // Serialize() (hex)
	SerErr bool     `json:"sererr"` // Serialize() returned an error
	HSer   string   `json:"hser"`   // SHA-256 of ser, computed here
	Canon  string   `json:"canon"`  // this harness's canonical bytes when different from ser, else ""
	HCanon string   `json:"hcanon"`
	IDB    *string  `json:"idb"` // this harness's hex decoding (nil: not hexadecimal text)
	PKB    *string  `json:"pkb"`
	SGB    *string  `json:"sgb"`
	PKOK   bool     `json:"pkok"` // schnorr.ParsePubKey(pkb) succeeds
	SGOK   bool     `json:"sgok"` // schnorr.ParseSignature(sgb) succeeds
	V      bool     `json:"v"`    // sig.Verify(idb, pk) called here directly
	Res    int      `json:"res"`  // Verify(): 1 true, 0 false, 2 error, 3 panic
	// Res2: Verify() of the same event after it went through JSON (written by encoding/json from a plain struct, read
	// by the relay's Event.UnmarshalJSON); nil when a string of the event is not valid UTF-8 (encoding/json would
	// change it) or the relay's decoder refuses the text
	Res2   *int `json:"res2,omitempty"`
	Valid  bool `json:"valid"`
	Expect int  `json:"expect"` // by construction: 1 authentic, 0 not authentic, 2 same bytes in another hex case
}

// ---- the independent canonical encoder (NIP-01)

func c01CanonString(dst []byte, s string) []byte {
	dst = append(dst, '"')
	for _, c := range []byte(s) {
		switch {
		case c == 0x0A:
			dst = append(dst, `\n`...)
		case c == 0x22:
			dst = append(dst, `\"`...)
		case c == 0x5C:
			dst = append(dst, `\\`...)
		case c == 0x0D:
			dst = append(dst, `\r`...)
		case c == 0x09:
			dst = append(dst, `\t`...)
		case c == 0x08:
			dst = append(dst, `\b`...)
		case c == 0x0C:
			dst = append(dst, `\f`...)
		case c < 0x20:
			dst = append(dst, `\u00`...)
			dst = append(dst, "0123456789abcdef"[c/16], "0123456789abcdef"[c%16])
		default:
			dst = append(dst, c)
		}
	}
	return append(dst, '"')
}

func c01Canon(pk string, ts, kind int64, tags [][]string, content string) []byte {
	var b []byte
	b = append(b, '[', '0', ',')
	b = c01CanonString(b, pk)
	b = append(b, ',')
	b = append(b, strconv.FormatInt(ts, 10)...)
	b = append(b, ',')
	b = append(b, strconv.FormatInt(kind, 10)...)
	b = append(b, ',', '[')
	for i, t := range tags {
		if i != 0 {
			b = append(b, ',')
		}
		b = append(b, '[')
		for j, v := range t {
			if j != 0 {
				b = append(b, ',')
			}
			b = c01CanonString(b, v)
		}
		b = append(b, ']')
	}
	b = append(b, ']', ',')
	b = c01CanonString(b, content)
	return append(b, ']')
}

// permissive hex decoding, written here (either case; nil when not hex text)
func c01Unhex(s string) []byte {
	if len(s)%2 != 0 {
		return nil
	}
	val := func(c byte) int {
		switch {
		case '0' <= c && c <= '9':
			return int(c - '0')
		case 'a' <= c && c <= 'f':
			return int(c-'a') + 10
		case 'A' <= c && c <= 'F':
			return int(c-'A') + 10
		}
		return -1
	}
	out := make([]byte, 0, len(s)/2)
	for i := 0; i < len(s); i += 2 {
		h, l := val(s[i]), val(s[i+1])
		if h < 0 || l < 0 {
			return nil
		}
		out = append(out, byte(h*16+l))
	}
	return out
}

func hx(s string) string { return hex.EncodeToString([]byte(s)) }
func unhx(s string) string {
	b, err := hex.DecodeString(s)
	if err != nil {
		common.Fatalf("bad hex in case: %q", s)
	}
	return string(b)
}
func hxTags(t [][]string) [][]string {
	out := make([][]string, len(t))
	for i := range t {
		out[i] = make([]string, len(t[i]))
		for j := range t[i] {
			out[i][j] = hx(t[i][j])
		}
	}
	return out
}
func unhxTags(t [][]string) [][]string {
	out := make([][]string, len(t))
	for i := range t {
		out[i] = make([]string, len(t[i]))
		for j := range t[i] {
			out[i][j] = unhx(t[i][j])
		}
	}
	return out
}

func flipBit(s string, n int) string {
	if len(s) == 0 {
		return "\x01"
	}
	b := []byte(s)
	n %= 8 * len(b)
	b[n/8] ^= 1 << (n % 8)
	return string(b)
}

func c01Key(skHex string) *btcec.PrivateKey {
	b, err := hex.DecodeString(skHex)
	if err != nil || len(b) != 32 {
		common.Fatalf("bad secret key %q", skHex)
	}
	allZero := true
	for _, x := range b {
		if x != 0 {
			allZero = false
		}
	}
	if allZero {
		b[31] = 1
	}
	k, _ := btcec.PrivKeyFromBytes(b)
	return k
}

// c01Run builds the signed base event of the recipe, applies the alteration
// and observes the real code.
func c01Run(c *c01Case) {
	r := &c.R
	priv := c01Key(r.SK)
	pk := hex.EncodeToString(schnorr.SerializePubKey(priv.PubKey()))
	tags := unhxTags(r.Tags)
	content := unhx(r.Content)
	ts, kind := r.TS, r.Kind

	canon := c01Canon(pk, ts, kind, tags, content)
	h := sha256.Sum256(canon)
	id := hex.EncodeToString(h[:])
	sg, err := schnorr.Sign(priv, h[:])
	if err != nil {
		common.Fatalf("cannot sign: %v", err)
	}
	sig := hex.EncodeToString(sg.Serialize())
	expect := 0
	val := unhx(r.Val)

	reenc := func(text string, n int) string { // flip a bit of the decoded bytes
		return hex.EncodeToString([]byte(flipBit(string(c01Unhex(text)), n)))
	}
	upperNth := func(text string, n int) (string, bool) {
		var idx []int
		for i := 0; i < len(text); i++ {
			if 'a' <= text[i] && text[i] <= 'f' {
				idx = append(idx, i)
			}
		}
		if len(idx) == 0 {
			return text, false
		}
		b := []byte(text)
		b[idx[n%len(idx)]] -= 32
		return string(b), true
	}
	sameBytes := func(a, b string) bool {
		x, y := c01Unhex(a), c01Unhex(b)
		return x != nil && y != nil && bytes.Equal(x, y)
	}
	switch r.Alt {
	case "", "none":
		r.Alt = "none"
		expect = 1
	case "content":
		if val == content {
			val += "x"
		}
		content = val
	case "tag":
		nv := 0
		for _, t := range tags {
			nv += len(t)
		}
		if nv == 0 {
			tags = append(tags, []string{val})
		} else {
			k := r.N % nv
			for i := range tags {
				if k < len(tags[i]) {
					if tags[i][k] == val {
						val += "x"
					}
					tags[i][k] = val
					break
				}
				k -= len(tags[i])
			}
		}
	case "tag_drop": // remove one tag value (or add an empty tag when there is none)
		nv := 0
		for _, t := range tags {
			nv += len(t)
		}
		if nv == 0 {
			tags = append(tags, []string{})
		} else {
			k := r.N % nv
			for i := range tags {
				if k < len(tags[i]) {
					tags[i] = append(append([]string{}, tags[i][:k]...), tags[i][k+1:]...)
					break
				}
				k -= len(tags[i])
			}
		}
	case "kind":
		d := int64(1 + r.N%3)
		if kind > math.MaxInt64-d {
			kind -= d
		} else {
			kind += d
		}
	case "ts": // a neighbouring value, above or below
		d := int64(1 + r.N%3)
		if ts > math.MaxInt64-d || ((r.N/3)%2 == 1 && ts >= math.MinInt64+d) {
			ts -= d
		} else {
			ts += d
		}
	case "pk": // another valid key
		pk = hex.EncodeToString(schnorr.SerializePubKey(c01Key(r.SK2).PubKey()))
	case "pk_text": // an arbitrary string as pubkey
		if val == pk {
			val += "x"
		}
		pk = val
	case "reid_pk": // a bit of the pubkey flipped and the id recomputed: the id check passes, the key is wrong (or not on the curve)
		pk = reenc(pk, r.N)
		h2 := sha256.Sum256(c01Canon(pk, ts, kind, tags, content))
		id = hex.EncodeToString(h2[:])
	case "reid_pk_text": // an arbitrary string as pubkey and the id recomputed
		if val == pk {
			val += "x"
		}
		pk = val
		h2 := sha256.Sum256(c01Canon(pk, ts, kind, tags, content))
		id = hex.EncodeToString(h2[:])
	case "sig_other": // a valid signature of another message under the same key
		h2 := sha256.Sum256(append(append([]byte{}, canon...), 'x'))
		s2, err := schnorr.Sign(priv, h2[:])
		if err != nil {
			common.Fatalf("cannot sign: %v", err)
		}
		sig = hex.EncodeToString(s2.Serialize())
	case "sig_key2": // a valid signature of the same id under another key
		s2, err := schnorr.Sign(c01Key(r.SK2), h[:])
		if err != nil {
			common.Fatalf("cannot sign: %v", err)
		}
		sig = hex.EncodeToString(s2.Serialize())
	case "bit_id":
		id = reenc(id, r.N)
	case "bit_pk":
		pk = reenc(pk, r.N)
	case "bit_sig":
		sig = reenc(sig, r.N)
	case "bit_content":
		content = flipBit(content, r.N)
	case "txt_id":
		n := flipBit(id, r.N)
		if sameBytes(n, id) {
			expect = 2
		}
		id = n
	case "txt_sig":
		n := flipBit(sig, r.N)
		if sameBytes(n, sig) {
			expect = 2
		}
		sig = n
	case "txt_pk": // the pubkey text itself is signed
		pk = flipBit(pk, r.N)
	case "case_id":
		n, ok := upperNth(id, r.N)
		id, expect = n, 2
		if !ok {
			expect = 1
		}
	case "case_sig":
		n, ok := upperNth(sig, r.N)
		sig, expect = n, 2
		if !ok {
			expect = 1
		}
	case "case_all":
		n1 := string(bytes.ToUpper([]byte(id)))
		n2 := string(bytes.ToUpper([]byte(sig)))
		expect = 2
		if n1 == id && n2 == sig {
			expect = 1
		}
		id, sig = n1, n2
	case "trunc_id":
		id = id[:len(id)-1-r.N%3]
	case "trunc_sig":
		sig = sig[:len(sig)-1-r.N%3]
	default:
		common.Fatalf("unknown alteration %q", r.Alt)
	}

	c.E = c01Event{hx(id), hx(pk), ts, kind, hxTags(tags), hx(content), hx(sig)}
	c.Expect = expect

	mtags := make([]mocrelay.Tag, len(tags))
	for i, t := range tags {
		mtags[i] = mocrelay.Tag(append([]string{}, t...))
	}
	ev := &mocrelay.Event{ID: id, Pubkey: pk, CreatedAt: ts, Kind: kind, Tags: mtags, Content: content, Sig: sig}
	c.ev = ev

	// (a) Serialize
	func() {
		defer func() {
			if recover() != nil {
				c.SerErr = true
			}
		}()
		ser, err := ev.Serialize()
		if err != nil {
			c.SerErr = true
			return
		}
		c.Ser = hex.EncodeToString(ser)
		hs := sha256.Sum256(ser)
		c.HSer = hex.EncodeToString(hs[:])
	}()
	can2 := c01Canon(pk, ts, kind, tags, content)
	c.Canon, c.HCanon = "", ""
	if hex.EncodeToString(can2) != c.Ser {
		hc := sha256.Sum256(can2)
		c.Canon, c.HCanon = hex.EncodeToString(can2), hex.EncodeToString(hc[:])
	}

	// the decodings and the BIP-340 oracle, computed here
	c.IDB, c.PKB, c.SGB = nil, nil, nil
	c.PKOK, c.SGOK, c.V = false, false, false
	idb, pkb, sgb := c01Unhex(id), c01Unhex(pk), c01Unhex(sig)
	if idb != nil {
		c.IDB = common.Ptr(hex.EncodeToString(idb))
	}
	var ppk *btcec.PublicKey
	var psg *schnorr.Signature
	if pkb != nil {
		c.PKB = common.Ptr(hex.EncodeToString(pkb))
		if p, err := schnorr.ParsePubKey(pkb); err == nil {
			c.PKOK, ppk = true, p
		}
	}
	if sgb != nil {
		c.SGB = common.Ptr(hex.EncodeToString(sgb))
		if s, err := schnorr.ParseSignature(sgb); err == nil {
			c.SGOK, psg = true, s
		}
	}
	if idb != nil && ppk != nil && psg != nil {
		func() {
			defer func() { recover() }()
			c.V = psg.Verify(idb, ppk)
		}()
	}

	// (b) Verify, Valid
	func() {
		defer func() {
			if recover() != nil {
				c.Res = 3
			}
		}()
		ok, err := ev.Verify()
		switch {
		case err != nil:
			c.Res = 2
		case ok:
			c.Res = 1
		default:
			c.Res = 0
		}
	}()
	func() {
		defer func() {
			if recover() != nil {
				c.Valid = false
			}
		}()
		c.Valid = ev.Valid()
	}()

	// (c) the decoded copy: an event a relay judges has been through its JSON decoder
	c.Res2 = nil
	clean := utf8.ValidString(id) && utf8.ValidString(pk) && utf8.ValidString(sig) && utf8.ValidString(content)
	for _, t := range tags {
		for _, x := range t {
			clean = clean && utf8.ValidString(x)
		}
	}
	if clean {
		wire := struct {
			ID      string     `json:"id"`
			PK      string     `json:"pubkey"`
			TS      int64      `json:"created_at"`
			Kind    int64      `json:"kind"`
			Tags    [][]string `json:"tags"`
			Content string     `json:"content"`
			Sig     string     `json:"sig"`
		}{id, pk, ts, kind, tags, content, sig}
		if wire.Tags == nil {
			wire.Tags = [][]string{}
		}
		for i := range wire.Tags {
			if wire.Tags[i] == nil {
				wire.Tags[i] = []string{}
			}
		}
		if text, err := json.Marshal(wire); err == nil {
			func() {
				defer func() {
					if recover() != nil {
						c.Res2 = common.Ptr(3)
					}
				}()
				var ev2 mocrelay.Event
				if err := json.Unmarshal(text, &ev2); err != nil {
					return
				}
				ok, err := ev2.Verify()
				switch {
				case err != nil:
					c.Res2 = common.Ptr(2)
				case ok:
					c.Res2 = common.Ptr(1)
				default:
					c.Res2 = common.Ptr(0)
				}
			}()
		}
	}
}

// ---- generators

var c01Classes = []string{"ascii", "ascii", "html", "html", "lsps", "c0", "c0", "del", "utf2", "utf3", "utf4", "edges",
	"quotes", "uesc", "repl", "mixed", "mixed", "empty"}

const c01PieceClasses = 15 // the classes before "mixed"

func c01Rune(r *common.Rand, lo, hi rune) rune {
	for {
		x := lo + rune(r.Intn(int(hi-lo+1)))
		if x < 0xD800 || x > 0xDFFF {
			return x
		}
	}
}

func c01Piece(r *common.Rand, cls string) string {
	switch cls {
	case "ascii":
		return string(rune(0x20 + r.Intn(0x5f)))
	case "html":
		return common.Pick(r, []string{"<", ">", "&", "<b>", "&amp;", "a<b", "</script>"})
	case "lsps":
		return common.Pick(r, []string{"\xe2\x80\xa8", "\xe2\x80\xa9", "\xe2\x80\xa7", "\xe2\x80\xaa", "\xe2\x80\xa8\xe2\x80\xa9", "a\xe2\x80\xa8b"}) // U+2028 U+2029 and their neighbours U+2027 U+202A
	case "c0":
		return string(rune(r.Intn(0x20)))
	case "del":
		return common.Pick(r, []string{"\x7f", "\x7f\x7f", "\u0080", "\u009f", "~\x7f"})
	case "utf2":
		return string(c01Rune(r, 0x80, 0x7ff))
	case "utf3":
		return string(c01Rune(r, 0x800, 0xffff))
	case "utf4":
		return string(c01Rune(r, 0x10000, 0x10ffff))
	case "edges":
		return common.Pick(r, []string{"\xed\x9f\xbf", "\xee\x80\x80", "\xef\xbf\xbd", "\xf4\x8f\xbf\xbf", "\xf0\x90\x80\x80", "\xdf\xbf", "\xe0\xa0\x80", "\xef\xbf\xbf", "\x7f", "\xc2\x80"}) // U+D7FF U+E000 U+FFFD U+10FFFF U+10000 U+7FF U+800 U+FFFF U+7F U+80
	case "repl": // a genuine U+FFFD REPLACEMENT CHARACTER (what a decoder leaves behind), alone, repeated, and its neighbours U+FFFC U+FFFE
		return common.Pick(r, []string{"\xef\xbf\xbd", "\xef\xbf\xbd", "\xef\xbf\xbd\xef\xbf\xbd", "a\xef\xbf\xbdb", "\xef\xbf\xbc", "\xef\xbf\xbe", "?\xef\xbf\xbd"})
	case "quotes":
		n := 1 + r.Intn(4)
		s := ""
		for i := 0; i < n; i++ {
			s += common.Pick(r, []string{`"`, `\`, `\"`, `\\`, `"\`})
		}
		return s
	case "uesc":
		return common.Pick(r, []string{"\\u2028", "\\u2029", "\\u003c", "\\u0000", "\\ufffd", "\\n", "\\u00", "\\u", "u2028", "\\\\u2028"}) // literal texts: a backslash followed by u2028 etc.
	}
	return "x"
}

func c01String(r *common.Rand, cls string) string {
	if cls == "empty" {
		return ""
	}
	n := 1 + r.Intn(6)
	if r.Chance(8) {
		n = 20 + r.Intn(60)
	}
	s := ""
	for i := 0; i < n; i++ {
		k := cls
		if cls == "mixed" {
			k = common.Pick(r, c01Classes[:c01PieceClasses])
		} else if r.Chance(35) {
			k = "ascii"
		}
		s += c01Piece(r, k)
	}
	return s
}

var c01Kinds = []int64{0, 1, 3, 5, 7, 9999, 10000, 10001, 19999, 20000, 20001, 29999, 30000, 30001, 39999, 40000, 65534, 65535}
var c01OddKinds = []int64{65536, -1, 1 << 31, 1 << 53, 1<<53 + 1, 1<<60 + 1, math.MaxInt64, math.MinInt64}
var c01Times = []int64{0, 1, -1, -1700000000, 1 << 31, 1<<31 - 1, 1 << 32, 1 << 53, 1<<53 + 1, math.MaxInt64, math.MaxInt64 - 1, math.MinInt64, 1700000000, 9, 10, 99, 100}

// c01BigTime: a created_at of large magnitude, 2^e + d for e in 53..62 and small d, either sign:
// the integers that a float64 (or a JSON number decoded into one) cannot tell from their neighbours
func c01BigTime(r *common.Rand) int64 {
	e := uint(53 + r.Intn(10))
	v := int64(1)<<e + int64(r.Intn(7)) - 3
	if r.Chance(30) {
		v = -v
	}
	return v
}

func c01Hex32(r *common.Rand) string {
	b := make([]byte, 32)
	for i := 0; i < 4; i++ {
		x := r.U64()
		for j := 0; j < 8; j++ {
			b[8*i+j] = byte(x >> (8 * j))
		}
	}
	b[0] &= 0x7f // below the group order
	return hex.EncodeToString(b)
}

func c01Base(r *common.Rand) c01Recipe {
	var rc c01Recipe
	rc.SK, rc.SK2 = c01Hex32(r), c01Hex32(r)
	switch x := r.Intn(100); {
	case x < 45:
		rc.Kind = int64(r.Intn(65536))
	case x < 95:
		rc.Kind = common.Pick(r, c01Kinds)
	default:
		rc.Kind = common.Pick(r, c01OddKinds)
	}
	switch x := r.Intn(100); {
	case x < 40:
		rc.TS = 1600000000 + int64(r.Intn(200000000))
	case x < 52:
		rc.TS = int64(r.U64())
	case x < 64:
		rc.TS = c01BigTime(r)
	default:
		rc.TS = common.Pick(r, c01Times)
	}
	rc.Cls = common.Pick(r, c01Classes)
	rc.Content = hx(c01String(r, rc.Cls))
	tags := [][]string{}
	tcls := rc.Cls
	if r.Chance(50) {
		tcls = common.Pick(r, c01Classes)
	}
	val := func() string {
		if r.Chance(15) {
			return ""
		}
		if r.Chance(30) {
			return common.Pick(r, []string{"e", "p", "a", "d", "t"})
		}
		return c01String(r, tcls)
	}
	switch x := r.Intn(100); {
	case x < 15: // none
	case x < 22:
		tags = append(tags, []string{""})
	case x < 27:
		tags = append(tags, []string{}) // an empty tag (Valid rejects it; Serialize must still be canonical)
		if r.Bool() {
			tags = append(tags, []string{val()})
		}
	case x < 90:
		nt := 1 + r.Intn(4)
		for i := 0; i < nt; i++ {
			ne := 1 + r.Intn(6)
			t := []string{}
			for j := 0; j < ne; j++ {
				t = append(t, val())
			}
			tags = append(tags, t)
		}
	default:
		nt := 15 + r.Intn(40)
		for i := 0; i < nt; i++ {
			tags = append(tags, []string{common.Pick(r, []string{"e", "p", "t"}), val()})
		}
	}
	rc.Tags = hxTags(tags)
	rc.Alt = "none"
	return rc
}

var c01Alts = []string{"content", "tag", "tag_drop", "kind", "ts", "pk", "pk_text", "reid_pk", "reid_pk_text", "sig_other", "sig_key2",
	"bit_id", "bit_pk", "bit_sig", "bit_content", "txt_id", "txt_sig", "txt_pk", "case_id", "case_sig", "case_all",
	"trunc_id", "trunc_sig"}

// c01Sweep: the k-th packed event of the exhaustive sweep over Unicode scalar values.
const c01Pack = 4096
const c01Scalars = 0x110000 - 0x800

func c01Sweep(r *common.Rand, k int) c01Recipe {
	rc := c01Base(r)
	rc.Tags = [][]string{}
	rc.Cls = "sweep"
	var b []byte
	for i := k * c01Pack; i < (k+1)*c01Pack && i < c01Scalars; i++ {
		x := rune(i)
		if x >= 0xD800 {
			x += 0x800
		}
		b = utf8.AppendRune(b, x)
	}
	rc.Content = hex.EncodeToString(b)
	return rc
}

// ---- sequences: several events verified one after the other in this process

// the alterations after which Verify is expected to take an error return (undecodable
// id/pubkey/sig text, a pubkey that is not a curve point) or at least an early one
var c01ErrAlts = []string{"reid_pk", "reid_pk", "reid_pk_text", "pk_text", "bit_pk", "txt_pk", "txt_id", "txt_sig",
	"trunc_id", "trunc_sig"}

func c01AltOf(r *common.Rand, base c01Recipe, alt string) c01Recipe {
	a := base
	a.Alt = alt
	a.N = r.Intn(1 << 20)
	switch a.Alt {
	case "content", "tag":
		a.Val = hx(c01String(r, common.Pick(r, c01Classes)))
	case "pk_text", "reid_pk_text":
		a.Val = hx(common.Pick(r, []string{"", "zz", c01String(r, "mixed"), c01String(r, "quotes"), c01String(r, "html"),
			"0000000000000000000000000000000000000000000000000000000000000005",   // 64 hex digits, x not on the curve
			"fffffffffffffffffffffffffffffffffffffffffffffffffffffffefffffc30"})) // x >= p
	}
	return a
}

// c01SeqGen: 2..5 events over one or two signed base events: the base itself (possibly more
// than once), alterations that make Verify fail early, and arbitrary alterations, in any order.
func c01SeqGen(r *common.Rand) c01Case {
	bases := []c01Recipe{c01Base(r)}
	if r.Chance(50) {
		bases = append(bases, c01Base(r))
	}
	n := 2 + r.Intn(4)
	var c c01Case
	for i := 0; i < n; i++ {
		b := common.Pick(r, bases)
		var rc c01Recipe
		switch x := r.Intn(100); {
		case x < 45:
			rc = b
		case x < 80:
			rc = c01AltOf(r, b, common.Pick(r, c01ErrAlts))
		default:
			rc = c01AltOf(r, b, common.Pick(r, c01Alts))
		}
		c.Seq = append(c.Seq, c01Case{R: rc})
	}
	c.Conc = r.Chance(30)
	return c
}

// c01Settle: between two cases the real Verify is called on a fixed correctly signed event
// (result ignored), so that every case starts from the same history: whatever a case observes
// is then a function of the case alone, and a replay of the case reproduces it.
var c01SettleEv *mocrelay.Event

func c01Settle() {
	if c01SettleEv == nil {
		priv := c01Key("0000000000000000000000000000000000000000000000000000000000000003")
		pk := hex.EncodeToString(schnorr.SerializePubKey(priv.PubKey()))
		h := sha256.Sum256(c01Canon(pk, 1700000000, 1, [][]string{}, "settle"))
		sg, err := schnorr.Sign(priv, h[:])
		if err != nil {
			common.Fatalf("cannot sign: %v", err)
		}
		c01SettleEv = &mocrelay.Event{ID: hex.EncodeToString(h[:]), Pubkey: pk, CreatedAt: 1700000000, Kind: 1,
			Tags: []mocrelay.Tag{}, Content: "settle", Sig: hex.EncodeToString(sg.Serialize())}
	}
	func() {
		defer func() { recover() }()
		c01SettleEv.Verify()
	}()
}

// c01RunCase runs a single-event case or, in order, the events of a sequence case.
func c01RunCase(c *c01Case) {
	c01Settle()
	if len(c.Seq) == 0 {
		c01Run(c)
		return
	}
	for i := range c.Seq {
		c.Seq[i] = c01Case{R: c.Seq[i].R}
		if c.Seq[i].R.Tags == nil {
			c.Seq[i].R.Tags = [][]string{}
		}
		c01Run(&c.Seq[i])
	}
	if c.Conc {
		c01VerifyTogether(c.Seq)
	}
}

func c01VerdictOf(ev *mocrelay.Event) (res int) {
	defer func() {
		if recover() != nil {
			res = 3
		}
	}()
	ok, err := ev.Verify()
	switch {
	case err != nil:
		return 2
	case ok:
		return 1
	}
	return 0
}

func c01VerifyTogether(seq []c01Case) {
	start := make(chan struct{})
	var wg sync.WaitGroup
	diff := make([]int, len(seq))
	for i := range seq {
		diff[i] = -1
		if seq[i].ev == nil || seq[i].Res == 3 {
			continue
		}
		wg.Add(1)
		go func(i int) {
			defer wg.Done()
			<-start
			for k := 0; k < 300; k++ {
				cp := *seq[i].ev
				if r := c01VerdictOf(&cp); r != seq[i].Res {
					diff[i] = r
					return
				}
			}
		}(i)
	}
	close(start)
	wg.Wait()
	for i := range seq {
		if diff[i] >= 0 {
			seq[i].Res = diff[i]
		}
	}
}

func init() {
	subcmds["c01"] = func(seed uint64, n int, out *common.Out, replay string) {
		if replay != "" {
			for _, raw := range common.ReadLines(replay) {
				var c c01Case
				if err := json.Unmarshal(raw, &c); err != nil {
					common.Fatalf("bad replay case: %v", err)
				}
				c = c01Case{R: c.R, Seq: c.Seq, Conc: c.Conc}
				if c.R.Tags == nil {
					c.R.Tags = [][]string{}
				}
				c01RunCase(&c)
				out.Emit(c)
			}
			return
		}
		exhaustive := false
		for _, a := range os.Args[2:] {
			if a == "exhaustive" {
				exhaustive = true
			}
		}
		root := common.NewRand(seed)
		// n counts cases; a base event is followed by a selection of its alterations
		nSweep := (c01Scalars + c01Pack - 1) / c01Pack
		sweepEvery := 0
		if exhaustive {
			sweepEvery = n / (nSweep + 1)
			if sweepEvery < 1 {
				sweepEvery = 1
			}
		}
		sweepDone := 0
		for i := 0; out.N < n || (exhaustive && sweepDone < nSweep); i++ {
			r := root.Fork(uint64(i))
			if exhaustive && sweepDone < nSweep && (out.N >= n || out.N >= sweepDone*sweepEvery) {
				c := c01Case{R: c01Sweep(r, sweepDone)}
				sweepDone++
				c01RunCase(&c)
				out.Emit(c)
				continue
			}
			if i%4 == 3 { // a sequence case
				c := c01SeqGen(r)
				c01RunCase(&c)
				out.Emit(c)
				continue
			}
			base := c01Base(r)
			c := c01Case{R: base}
			c01RunCase(&c)
			out.Emit(c)
			// alterations of this signed event
			na := 4 + r.Intn(8)
			for j := 0; j < na && out.N < n; j++ {
				ac := c01Case{R: c01AltOf(r, base, common.Pick(r, c01Alts))}
				c01RunCase(&ac)
				out.Emit(ac)
			}
		}
	}
}
