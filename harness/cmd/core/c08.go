package main

// C08: merged REQ.  Histories for the driver in merge_driver.go: every child
// gets a script per REQ (stored events, EOSE, live events); the scripts are
// interleaved at random with each other and with client actions (CLOSE,
// a second subscription, occasionally a re-issued REQ).  Beside them: histories
// for handlers with many children (c08ManyChildren) and histories in which one
// handler value serves several sessions (c08GenerateMulti).

import (
	"encoding/json"
	"sort"
	"strconv"

	"verif/harness/common"
)

type c08Gen struct {
	r    *common.Rand
	n    int
	pool []common.JEvent
}

func (g *c08Gen) childMsgEvent(sub string, e common.JEvent) *mMsg {
	ev := e
	return &mMsg{T: "event", Sub: sub, E: &ev}
}

// script of one child for one REQ
func (g *c08Gen) script(sub string) []*mMsg {
	r := g.r
	var stored []common.JEvent
	p := []int{30, 50, 80}[r.Intn(3)]
	for _, e := range g.pool {
		if r.Chance(p) {
			stored = append(stored, e)
		}
	}
	sort.SliceStable(stored, func(a, b int) bool { return stored[a].TS > stored[b].TS })
	if r.Chance(20) && len(stored) > 1 { // a child that does not sort
		i, j := r.Intn(len(stored)), r.Intn(len(stored))
		stored[i], stored[j] = stored[j], stored[i]
	}
	if r.Chance(10) && len(stored) > 0 { // a child that repeats itself
		stored = append(stored, stored[r.Intn(len(stored))])
	}
	var out []*mMsg
	for _, e := range stored {
		out = append(out, g.childMsgEvent(sub, e))
	}
	if !r.Chance(6) { // a child that never answers
		out = append(out, &mMsg{T: "eose", Sub: sub})
	}
	nl := r.Intn(3)
	for i := 0; i < nl; i++ {
		out = append(out, g.childMsgEvent(sub, common.Pick(r, g.pool)))
	}
	if r.Chance(3) {
		out = append(out, &mMsg{T: "eose", Sub: sub}) // a second EOSE from the same child
	}
	return out
}

func (g *c08Gen) filters() []common.JFilter {
	r := g.r
	u := common.Small
	nf := 1
	if r.Chance(30) {
		nf = 2
	}
	fs := []common.JFilter{}
	for i := 0; i < nf; i++ {
		f := u.Filter(r, []int{0, 10, 25}[r.Intn(3)])
		f.Limit = nil
		if r.Chance(60) {
			f.Limit = common.Ptr(int64(r.Intn(5)))
		}
		fs = append(fs, f)
	}
	return fs
}

func c08Generate(r *common.Rand) mCase {
	return c08GenerateN(r, []int{2, 2, 2, 3, 3, 4}[r.Intn(6)])
}

// c08GenerateMulti: two or three sessions of ONE handler value, each with a
// history of its own from c08GenerateN (same number of children, the same
// subscription ids s1/s2 and overlapping event pools), interleaved at random.
// Every session is judged on its own.
func c08GenerateMulti(r *common.Rand) mCase {
	n := []int{2, 2, 2, 3, 3, 4}[r.Intn(6)]
	k := 2
	if r.Chance(25) {
		k = 3
	}
	cs := make([]mCase, k)
	for j := range cs {
		cs[j] = c08GenerateN(r.Fork(uint64(j)), n)
	}
	return mergeInterleave(r.Fork(99), cs)
}

// c08ManyChildren: a handler with many children (the property quantifies over
// every number of children >= 2; the numbers used are the ones around the
// widths of machine words: 31..33, 63..66, 70).  One REQ; every child but one
// answers "a stored event now and then, EOSE" in random order; the remaining
// child ("late": the first, the last or a random one) answers last, with a
// stored event before its EOSE; then a live event.  The merged EOSE is due at
// the late child's EOSE and not before.
var c08ManyNs = []int{31, 32, 33, 63, 64, 65, 66, 70}

func c08ManyChildren(r *common.Rand, n int, which int) mCase {
	g := &c08Gen{r: r, n: n}
	u := common.Small
	u.TSMax = 4
	for i := 0; i < 5; i++ {
		g.pool = append(g.pool, u.Event(r, i))
	}
	sort.SliceStable(g.pool, func(a, b int) bool { return g.pool[a].TS > g.pool[b].TS })
	late := []int{0, n - 1, r.Intn(n)}[which%3]
	c := mCase{N: n}
	c.Steps = append(c.Steps, mStep{K: "req", Sub: "s1", Fs: []common.JFilter{{}}})
	order := make([]int, 0, n)
	for i := 0; i < n; i++ {
		if i != late {
			order = append(order, i)
		}
	}
	for i := len(order) - 1; i > 0; i-- {
		j := r.Intn(i + 1)
		order[i], order[j] = order[j], order[i]
	}
	for _, i := range order {
		if r.Chance(15) {
			c.Steps = append(c.Steps, mStep{K: "child", I: i, M: g.childMsgEvent("s1", g.pool[r.Intn(2)])})
		}
		c.Steps = append(c.Steps, mStep{K: "child", I: i, M: &mMsg{T: "eose", Sub: "s1"}})
	}
	c.Steps = append(c.Steps, mStep{K: "child", I: late, M: g.childMsgEvent("s1", g.pool[2+r.Intn(3)])})
	c.Steps = append(c.Steps, mStep{K: "child", I: late, M: &mMsg{T: "eose", Sub: "s1"}})
	c.Steps = append(c.Steps, mStep{K: "child", I: r.Intn(n), M: g.childMsgEvent("s1", common.Pick(r, g.pool))})
	return c
}

// c08ManySameTS: one subscription whose stored answer holds very many events
// with one created_at (a bulk import): child 0 sends m distinct events of the
// same timestamp and its EOSE; child 1 then sends some of them again (the
// first three, one from the middle, the last) and its EOSE.  Every repeat is
// due to be dropped however large m is: the set of ids already forwarded for
// the current timestamp has no bound.  The numbers used lie just above powers
// of two.
var c08SameTSMs = []int{130, 520, 1030, 2060}

func c08ManySameTS(r *common.Rand, m int) mCase {
	g := &c08Gen{r: r, n: 2}
	ts := int64(1700000000 + r.Intn(5))
	pk := common.Pick(r, common.Small.PKs)
	evs := make([]common.JEvent, m)
	for i := range evs {
		evs[i] = common.JEvent{ID: "b" + strconv.Itoa(i), PK: pk, TS: ts, Kind: 1, Tags: [][]string{}}
	}
	c := mCase{N: 2}
	c.Steps = append(c.Steps, mStep{K: "req", Sub: "s1", Fs: []common.JFilter{{}}})
	for _, e := range evs {
		c.Steps = append(c.Steps, mStep{K: "child", I: 0, M: g.childMsgEvent("s1", e)})
	}
	c.Steps = append(c.Steps, mStep{K: "child", I: 0, M: &mMsg{T: "eose", Sub: "s1"}})
	for _, i := range []int{0, 1, 2, m / 2, m - 1, r.Intn(m)} {
		c.Steps = append(c.Steps, mStep{K: "child", I: 1, M: g.childMsgEvent("s1", evs[i])})
	}
	c.Steps = append(c.Steps, mStep{K: "child", I: 1, M: &mMsg{T: "eose", Sub: "s1"}})
	return c
}

func c08GenerateN(r *common.Rand, n int) mCase {
	g := &c08Gen{r: r}
	g.n = n
	u := common.Small
	u.TSMax = 4
	u.Extreme = 4 // created_at at the ends of int64 (comparisons through time.Unix or by subtraction go wrong there)
	np := 3 + r.Intn(5)
	for i := 0; i < np; i++ {
		g.pool = append(g.pool, u.Event(r, i))
	}
	if r.Chance(12) { // ids are not functional: same id, another timestamp
		tw := g.pool[r.Intn(len(g.pool))]
		tw.TS = int64(r.Intn(5))
		g.pool = append(g.pool, tw)
	}
	c := mCase{N: g.n}
	queues := make([][]*mMsg, g.n) // what each child still has to say
	open := func(sub string) {
		c.Steps = append(c.Steps, mStep{K: "req", Sub: sub, Fs: g.filters()})
		for i := 0; i < g.n; i++ {
			queues[i] = append(queues[i], g.script(sub)...)
		}
	}
	if r.Chance(5) { // traffic for a subscription nobody asked for
		c.Steps = append(c.Steps, mStep{K: "child", I: r.Intn(g.n), M: &mMsg{T: "eose", Sub: "s1"}})
		c.Steps = append(c.Steps, mStep{K: "child", I: r.Intn(g.n), M: g.childMsgEvent("s1", common.Pick(r, g.pool))})
	}
	open("s1")
	second := r.Chance(25)
	budget := 40
	for budget > 0 {
		budget--
		var live []int
		for i, q := range queues {
			if len(q) > 0 {
				live = append(live, i)
			}
		}
		if len(live) == 0 {
			break
		}
		switch x := r.Intn(100); {
		case x < 3:
			c.Steps = append(c.Steps, mStep{K: "close", Sub: common.Pick(r, []string{"s1", "s1", "s2"})})
		case x < 6:
			open("s1") // re-issued
		case x < 12 && second:
			second = false
			open("s2")
		case x < 14:
			c.Steps = append(c.Steps, mStep{K: "child", I: r.Intn(g.n), M: &mMsg{T: "notice", Msg: "hello"}})
		case x < 15:
			c.Steps = append(c.Steps, mStep{K: "child", I: r.Intn(g.n), M: &mMsg{T: "closed", Sub: "s1", P: "error: ", Msg: "x"}})
		case x < 17:
			c.Steps = append(c.Steps, mStep{K: "event", ID: "x1"})
		case x < 19:
			c.Steps = append(c.Steps, mStep{K: "child", I: r.Intn(g.n), M: &mMsg{T: "ok", ID: "x1", Acc: r.Bool(), Msg: "m"}})
		default:
			i := common.Pick(r, live)
			c.Steps = append(c.Steps, mStep{K: "child", I: i, M: queues[i][0]})
			queues[i] = queues[i][1:]
		}
	}
	// a child message that directly follows a client message overtakes the broadcast of that client message
	for k := 0; k+1 < len(c.Steps); k++ {
		if a, b := c.Steps[k], &c.Steps[k+1]; a.K != "child" && b.K == "child" && b.I >= 1 && r.Chance(40) {
			b.Early = true
		}
	}
	return c
}

// c08LastAnswerRace: one REQ; every child but one (the "late" one, never child 0) sends its stored events
// and its EOSE; then the client sends CLOSE for the subscription (or the same REQ again, or a CLOSE for
// another id), and the late child's EOSE (or a stored event followed by its EOSE) overtakes the broadcast of
// that client message; then a live event.  After a CLOSE nothing of the subscription may come out any more,
// after a re-issued REQ the merged EOSE is due only when every child has answered again.
func c08LastAnswerRace(r *common.Rand) mCase {
	g := &c08Gen{r: r}
	g.n = []int{2, 2, 3, 3, 4}[r.Intn(5)]
	u := common.Small
	u.TSMax = 4
	for i := 0; i < 5; i++ {
		e := u.Event(r, i)
		e.Kind = 1
		g.pool = append(g.pool, e)
	}
	c := mCase{N: g.n}
	late := 1 + r.Intn(g.n-1)
	fs := []common.JFilter{{Kinds: common.Ptr([]int64{1})}}
	c.Steps = append(c.Steps, mStep{K: "req", Sub: "s1", Fs: fs})
	var order []int
	for i := 0; i < g.n; i++ {
		if i != late {
			order = append(order, i)
		}
	}
	for a := len(order) - 1; a > 0; a-- {
		b := r.Intn(a + 1)
		order[a], order[b] = order[b], order[a]
	}
	for _, i := range order {
		if r.Chance(50) {
			c.Steps = append(c.Steps, mStep{K: "child", I: i, M: g.childMsgEvent("s1", common.Pick(r, g.pool))})
		}
		c.Steps = append(c.Steps, mStep{K: "child", I: i, M: &mMsg{T: "eose", Sub: "s1"}})
	}
	switch x := r.Intn(10); {
	case x < 6:
		c.Steps = append(c.Steps, mStep{K: "close", Sub: "s1"})
	case x < 8:
		c.Steps = append(c.Steps, mStep{K: "req", Sub: "s1", Fs: fs})
	default:
		c.Steps = append(c.Steps, mStep{K: "close", Sub: "s2"})
	}
	if r.Chance(35) {
		c.Steps = append(c.Steps, mStep{K: "child", I: late, M: g.childMsgEvent("s1", common.Pick(r, g.pool)), Early: true})
		c.Steps = append(c.Steps, mStep{K: "child", I: late, M: &mMsg{T: "eose", Sub: "s1"}})
	} else {
		c.Steps = append(c.Steps, mStep{K: "child", I: late, M: &mMsg{T: "eose", Sub: "s1"}, Early: true})
	}
	c.Steps = append(c.Steps, mStep{K: "child", I: r.Intn(g.n), M: g.childMsgEvent("s1", common.Pick(r, g.pool))})
	return c
}

// ---- exhaustive sub-space (thorough tier) --------------------------------
// All interleavings of two children's scripts with at most 7 messages in total,
// after one REQ (limit 2, kind 1): which of the orders the scheduler could
// produce is irrelevant, every one of them is executed.

func interleavings(a, b []*mMsg) [][]mStep {
	if len(a) == 0 && len(b) == 0 {
		return [][]mStep{{}}
	}
	var out [][]mStep
	if len(a) > 0 {
		for _, rest := range interleavings(a[1:], b) {
			out = append(out, append([]mStep{{K: "child", I: 0, M: a[0]}}, rest...))
		}
	}
	if len(b) > 0 {
		for _, rest := range interleavings(a, b[1:]) {
			out = append(out, append([]mStep{{K: "child", I: 1, M: b[0]}}, rest...))
		}
	}
	return out
}

func c08Exhaustive() []mCase {
	ev := func(id string, ts int64, kind int64) *mMsg {
		return &mMsg{T: "event", Sub: "s1", E: &common.JEvent{ID: id, PK: "p", TS: ts, Kind: kind, Tags: [][]string{}}}
	}
	eose := &mMsg{T: "eose", Sub: "s1"}
	a, b, c, d, x := ev("a", 5, 1), ev("b", 3, 1), ev("c", 3, 1), ev("d", 1, 1), ev("x", 4, 7)
	scripts := [][2][]*mMsg{
		{{a, b, eose}, {a, c, eose}},    // overlapping stored sets, a tie at ts 3
		{{a, b, d, eose}, {c, eose, a}}, // limit reached; live event after one EOSE
		{{b, a, eose}, {a, eose}},       // a child that does not sort
		{{a, eose, d}, {x, b, eose, c}}, // non-matching event; live events after the merged EOSE
		{{a, a, eose}, {eose, b}},       // a child that repeats itself; EOSE first
		{{eose, eose, a}, {b, eose}},    // a second EOSE from the same child
	}
	req := mStep{K: "req", Sub: "s1", Fs: []common.JFilter{{Kinds: &[]int64{1}, Limit: common.Ptr(int64(2))}}}
	var out []mCase
	for _, sp := range scripts {
		for _, il := range interleavings(sp[0], sp[1]) {
			out = append(out, mCase{N: 2, Steps: append([]mStep{req}, il...)})
		}
	}
	return out
}

const mergeExhaustiveFrom = 10000 // case counts of the thorough tier

func init() {
	subcmds["c08"] = func(seed uint64, n int, out *common.Out, replay string) {
		if mergeWorkerMode() {
			mergeWorker()
			return
		}
		var cases []mCase
		if replay != "" {
			for _, raw := range common.ReadLines(replay) {
				var c mCase
				if err := json.Unmarshal(raw, &c); err != nil {
					common.Fatalf("bad replay case: %v", err)
				}
				cases = append(cases, c)
			}
		} else {
			root := common.NewRand(seed)
			if n >= mergeExhaustiveFrom {
				cases = append(cases, c08Exhaustive()...)
			}
			// many children, in every tier: 8 numbers of children x 3 choices of the late child
			many := root.Fork(1 << 41)
			for k, nn := range c08ManyNs {
				for w := 0; w < 3; w++ {
					cases = append(cases, c08ManyChildren(many.Fork(uint64(3*k+w)), nn, w))
				}
			}
			// very many events with one timestamp, in every tier
			same := root.Fork(1 << 43)
			for k, m := range c08SameTSMs {
				cases = append(cases, c08ManySameTS(same.Fork(uint64(k)), m))
			}
			for i := 0; i < n; i++ {
				cases = append(cases, c08Generate(root.Fork(uint64(i))))
			}
			// the client takes a step (CLOSE, or the REQ again) while the answer of the last child is on its way: n/15 histories
			races := root.Fork(1 << 42)
			for i := 0; i < n/15; i++ {
				cases = append(cases, c08LastAnswerRace(races.Fork(uint64(i))))
			}
			// one handler value serving several sessions: n/10 more histories
			multi := root.Fork(1 << 40)
			for i := 0; i < n/10; i++ {
				cases = append(cases, c08GenerateMulti(multi.Fork(uint64(i))))
			}
		}
		for _, c := range runMergeAll("c08", cases) {
			out.Emit(c)
		}
	}
}
