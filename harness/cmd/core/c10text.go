package main

// C10T (extension of C10): the text <-> value layer.  For every generated
// byte string the harness records what Go's libraries and the repository's
// entry points do with the BYTES:
//
//   jvalid  json.Valid(b)
//   uvalid  utf8.Valid(b)
//   raw     json.Unmarshal(b, &json.RawMessage) succeeded (checkValid, as the
//           first step of every UnmarshalJSON of message.go)
//   dec     a Decoder with UseNumber decoding into `any`, whole input required:
//           "val" | "err" | "panic"
//   ast     the decoded value as Go's maps give it (objects de-duplicated, keys
//           sorted; numbers by their literal; strings as hex)
//   tok     the same text read with the Decoder's Token stream (members in
//           source order, duplicates kept)
//   mar     json.Marshal of the decoded value (maps are written with sorted
//           keys, json.Number by its literal), for values without a
//           fraction/exponent number: what the model's printer must print
//           for ast
//   lab     capture of the label pattern (a mirror of clientMsgRegexp compiled
//           here; the class below comes from the real ParseClientMsg)
//   pcls    ParseClientMsg: "val" | "nomatch" | "unknown" | "fail" | "panic"
//   pobs    ParseClientMsg's value
//   ty,dobs json.Unmarshal(b, target of Go type ty)
//
// Two streams: texts printed from random JSON values (generic values and
// message shapes, random white space, escapes, member order, duplicates), and
// a malformed stream.  Texts are kept short (the model is evaluated by
// vm_compute on byte lists); only the nesting-limit texts are long, and they
// travel in the "rep:" form of codec_common.go.

import (
	"bytes"
	"encoding/json"
	"fmt"
	"io"
	"regexp"
	"sort"
	"strings"
	"unicode/utf8"

	"github.com/high-moctane/mocrelay"
	"verif/harness/common"
)

type c10tCase struct {
	Cls    string `json:"cls"`
	Text   string `json:"text"`
	Len    int    `json:"len"`
	JValid bool   `json:"jvalid"`
	UValid bool   `json:"uvalid"`
	Raw    bool   `json:"raw"`
	Dec    string `json:"dec"`
	Ast    *JV    `json:"ast,omitempty"`
	Tok    *JV    `json:"tok,omitempty"`
	Deep   bool   `json:"deep,omitempty"` // value accepted but too deep to be written out
	Mar    *HStr  `json:"mar,omitempty"`  // json.Marshal of the decoded value (only when it holds no fraction/exponent number)
	Lab    *HStr  `json:"lab"`
	PCls   string `json:"pcls"`
	PObs   *Obs   `json:"pobs"`
	Ty     string `json:"ty"`
	DObs   *Obs   `json:"dobs"`
}

const c10tMaxAstDepth = 320
const c10tMaxAstSize = 4000

// mirror of message.go's clientMsgRegexp (the Coq side pins the source's
// pattern text through the regenerated constant g_client_msg_regexp)
var c10tLabelRe = regexp.MustCompile(`^\s*\[\s*"(\w*)"`)

// ---- observing ---------------------------------------------------------------

func c10tFromAny(v any) JV {
	switch t := v.(type) {
	case nil:
		return jNull()
	case bool:
		return jBool(t)
	case string:
		return jStr(t)
	case json.Number:
		lit := string(t)
		if strings.ContainsAny(lit, ".eE") {
			return jFrac(lit)
		}
		if strings.HasPrefix(lit, "-") {
			return jIntLit(true, lit[1:])
		}
		return jIntLit(false, lit)
	case []any:
		out := JV{T: 'a', A: []JV{}}
		for _, x := range t {
			out.A = append(out.A, c10tFromAny(x))
		}
		return out
	case map[string]any:
		keys := make([]string, 0, len(t))
		for k := range t {
			keys = append(keys, k)
		}
		sort.Strings(keys)
		out := JV{T: 'o', O: []JMember{}}
		for _, k := range keys {
			out.O = append(out.O, JMember{k, c10tFromAny(t[k])})
		}
		return out
	}
	panic(fmt.Sprintf("c10tFromAny: %T", v))
}

func c10tHasFrac(j JV) bool {
	if j.T == 'f' {
		return true
	}
	for _, x := range j.A {
		if c10tHasFrac(x) {
			return true
		}
	}
	for _, m := range j.O {
		if c10tHasFrac(m.V) {
			return true
		}
	}
	return false
}

func c10tAnyDepth(v any) int {
	d := 0
	switch t := v.(type) {
	case []any:
		for _, x := range t {
			if k := c10tAnyDepth(x); k > d {
				d = k
			}
		}
		return d + 1
	case map[string]any:
		for _, x := range t {
			if k := c10tAnyDepth(x); k > d {
				d = k
			}
		}
		return d + 1
	}
	return 0
}

// c10tDecode: Decoder + UseNumber into any; the rest of the input must be white space
func c10tDecode(b []byte) (res string, v any) {
	defer func() {
		if r := recover(); r != nil {
			res, v = "panic", nil
		}
	}()
	br := bytes.NewReader(b)
	dec := json.NewDecoder(br)
	dec.UseNumber()
	if err := dec.Decode(&v); err != nil {
		return "err", nil
	}
	// what the decoder has buffered but not consumed, then what it has not read yet
	rest, _ := io.ReadAll(io.MultiReader(dec.Buffered(), br))
	for _, c := range rest {
		if c != ' ' && c != '\t' && c != '\n' && c != '\r' {
			return "err", nil
		}
	}
	return "val", v
}

func c10tRawOK(b []byte) (ok bool) {
	defer func() {
		if r := recover(); r != nil {
			ok = false
		}
	}()
	var raw json.RawMessage
	return json.Unmarshal(b, &raw) == nil
}

func c10tParseClient(b []byte) (cls string, o Obs) {
	defer func() {
		if r := recover(); r != nil {
			cls, o = "panic", Obs{R: "panic", P: fmt.Sprint(r)}
		}
	}()
	m, err := mocrelay.ParseClientMsg(b)
	if err != nil {
		switch {
		case strings.HasPrefix(err.Error(), "not a client msg"):
			cls = "nomatch"
		case strings.HasPrefix(err.Error(), "unknown client msg"):
			cls = "unknown"
		default:
			cls = "fail"
		}
		return cls, Obs{R: "err"}
	}
	x := toX(m)
	return "val", Obs{R: "val", V: &x}
}

func c10tRun(cls, ty string, b []byte) c10tCase {
	c := c10tCase{Cls: cls, Text: textOf(b), Len: len(b), Ty: ty}
	c.JValid = json.Valid(b)
	c.UValid = utf8.Valid(b)
	c.Raw = c10tRawOK(b)
	res, v := c10tDecode(b)
	c.Dec = res
	if res == "val" {
		if c10tAnyDepth(v) > c10tMaxAstDepth {
			c.Deep = true
		} else {
			ast := c10tFromAny(v)
			if ast.size() > c10tMaxAstSize {
				c.Deep = true
			} else {
				c.Ast = &ast
				if !c10tHasFrac(ast) {
					if mb, pan := marshal(v); mb != nil && !pan {
						h := HStr(mb)
						c.Mar = &h
					}
				}
				if tok, ok := parseJV(b, c10tMaxAstDepth+2, 4*c10tMaxAstSize); ok {
					c.Tok = &tok
				}
			}
		}
	}
	if m := c10tLabelRe.FindSubmatch(b); len(m) > 0 {
		h := HStr(m[1])
		c.Lab = &h
	}
	pcls, pobs := c10tParseClient(b)
	c.PCls, c.PObs = pcls, &pobs
	d := decodeAs(ty, b)
	d.P = ""
	c.DObs = &d
	return c
}

// ---- stream 1: texts printed from values ------------------------------------------

var c10tStrs = []string{"", "a", "sub", "REQ", "q\"uote", "back\\slash", "line\nfeed", "tab\t", "\b\f\r", "\x00\x01\x1f", "\xc3\xa9", "\xe6\x97\xa5\xe6\x9c\xac", "\xf0\x9f\x98\x80", "a\xf0\x9f\x98\x80b\xf0\x9d\x84\x9e", "<a>&", "  ", "x\x7f", "/slash/", "\xef\xbf\xbd", "\xe2\x80\xa8", "\xe2\x80\xa9x", "\xc3\xbf", "\xf4\x8f\xbf\xbf", "\xed\x9f\xbf", "pow: x", "0123abcd", "EVENT", "id", "#e", "\xc2\x80\xdf\xbf\xe0\xa0\x80\xef\xbf\xbf\xf0\x90\x80\x80", "\xe2\x80\xa7\xe2\x80\xaa", "\xe2\x81\xa8"}

func c10tNum(r *common.Rand) JV {
	switch k := r.Intn(100); {
	case k < 50:
		return jInt(common.Pick(r, c10Ints))
	case k < 75:
		return common.Pick(r, append(c10BigLits[:8:8],
			jIntLit(false, "123456789012345678901234567890"), jIntLit(true, "340282366920938463463374607431768211456"),
			jIntLit(false, strings.Repeat("9", 60)), jIntLit(false, "10"), jIntLit(false, "100000000000000000000")))
	default:
		return jFrac(common.Pick(r, []string{"1.5", "1.0", "1e3", "1E+2", "-0.0", "0e0", "2.5e-3", "1e400", "0.0", "-1E-0",
			"0.000000000000000000000000000001", "12345678901234567890.12345678901234567890e+123456789", "1e-400", "-0e-0", "9.9E99"}))
	}
}

func c10tAny(r *common.Rand, depth int) JV {
	k := r.Intn(9)
	if depth <= 0 && k >= 6 {
		k = r.Intn(6)
	}
	switch k {
	case 0:
		return jNull()
	case 1:
		return jBool(r.Bool())
	case 2, 3:
		return c10tNum(r)
	case 4, 5:
		return jStr(common.Pick(r, c10tStrs))
	case 6:
		n := r.Intn(4)
		a := []JV{}
		for i := 0; i < n; i++ {
			a = append(a, c10tAny(r, depth-1))
		}
		return JV{T: 'a', A: a}
	default:
		n := r.Intn(4)
		m := []JMember{}
		for i := 0; i < n; i++ {
			m = append(m, JMember{common.Pick(r, []string{"a", "a", "b", "id", "", "é", "😀", "k\"", "A", "\n"}), c10tAny(r, depth-1)})
		}
		return JV{T: 'o', O: m}
	}
}

func c10tGenValueText(r *common.Rand) c10tCase {
	ps := &printStyle{r: r, ws: []int{0, 10, 40, 80}[r.Intn(4)], esc: []int{0, 5, 30, 100}[r.Intn(4)]}
	if r.Chance(45) {
		// a generic value
		j := c10tAny(r, 1+r.Intn(4))
		ps.lead = r.Chance(20)
		return c10tRun("ast:generic", common.Pick(r, allTypes), ps.print(j))
	}
	t := common.Pick(r, allTypes)
	if r.Chance(55) {
		t = common.Pick(r, clientTypes)
	}
	j := c10ShapeJV(t, r)
	cls := "ast:shape"
	nm := []int{0, 0, 0, 1, 1, 2}[r.Intn(6)]
	for i := 0; i < nm; i++ {
		cls = "ast:mut:" + c10Mutate(r, &j)
	}
	if r.Chance(50) {
		c10Shuffle(r, &j)
	}
	ps.lead = r.Chance(15)
	ps.labelEsc = r.Chance(8)
	ty := t
	if r.Chance(8) {
		ty = common.Pick(r, allTypes)
	}
	return c10tRun(cls, ty, ps.print(j))
}

// c10tUs: "~u" stands for a backslash followed by u (kept out of the source so that no tool rewrites the escapes)
func c10tUs(xs []string) []string {
	out := make([]string, len(xs))
	for i, x := range xs {
		out[i] = strings.ReplaceAll(x, "~u", "\\"+"u")
	}
	return out
}

// ---- stream 2: malformed texts ----------------------------------------------------------

var c10tAlphabet = []byte(`[]{}":,\/ntrue falsnl0123456789.eE+-ubfrt"EVENTREQ_ #'` + "\x00\x1f\x7f\x80\xbf\xc2\xff\xc3\xe2\xed\xf0\xf4 \t\n\r\f\v")

var c10tBadUTF8 = []string{"\xff", "\xc3", "\xe2\x82", "\xed\xa0\x80", "\xed\xbf\xbf", "\xf4\x90\x80\x80", "\xc0\xaf", "\xc1\xbf", "a\x80b",
	"\xe0\x80\x80", "\xe0\x9f\xbf", "\xf0\x80\x80\x80", "\xf0\x8f\xbf\xbf", "\xf0\x9f\x98", "\xf0\x9f", "\xf0", "\xf5\x80\x80\x80", "\xf8\x88\x80\x80\x80",
	"\xbf", "\xc2\x41", "\xe2\x28\xa1", "\xe2\x82\x28", "\xf0\x28\x8c\xbc", "\xf0\x90\x28\xbc", "\xf0\x28\x8c\x28", "\xfe\xff", "\xef\xbf", "\xc2\xc2\xa0",
	// valid boundary sequences for contrast
	"\xc2\x80", "\xdf\xbf", "\xe0\xa0\x80", "\xed\x9f\xbf", "\xee\x80\x80", "\xef\xbf\xbd", "\xef\xbf\xbf", "\xf0\x90\x80\x80", "\xf4\x8f\xbf\xbf", "\xe2\x80\xa8"}

var c10tEscapes = c10tUs([]string{`~ud800`, `~udc00`, `~udbff`, `~udfff`, `~ud800~ud800`, `~ud83d~ude00`, `~uD83D~uDE00`, `~ud83D~uDe00`, `~ude00~ud83d`, `~ud800x`, `~ud800\n`, `~ud800~u0041`, `~ud83d~ude0`, `~ud83d~u`, `~ud83d\`, `~ud83d\\ude00`, `~ud83d ~ude00`, `~udbff~udfff`, `~ud800~udc00`, `~ud7ff`, `~ue000`, `~uffff`, `~ufffd`, `~u0000`, `~u001f`, `~u0022`, `~u005c`, `~u005C`, `~u00e9`, `~u20ac`, `~u12`, `~uzzzz`, `~u 123`, `\U0041`, `\x41`, `\a`, `\v`, `\0`, `\'`, `\/`, `\b\f\n\r\t`, `\"\\`, `\`, `~u`, `~u00`, `~ud800~ud800~udc00`, `~ud800~udbff~udc00`, `~udc00~udc00`, `~u+123`, `~u-123`, `~ud83d~ude00~ud83d`, `~ufffe`, `~u007f`, `~u2028~u2029`, `~u00e9~u00E9`, `~uD834~uDD1E`, `~udb40~udc00x`, `~uDBFF~uDBFF~uDFFF`})

var c10tNumbers = []string{"01", "-", "1.", ".5", "1e", "1e+", "1E-", "+1", "-01", "0.", "1.e1", "1e1.5", "0x10", "1_000", "--1", "- 1", "1 2", "00",
	"-0", "-0.0", "0e0", "1E-0", "1e400", "1e-400", "1e99999999999999999999", "123456789012345678901234567890", "-123456789012345678901234567890",
	strings.Repeat("7", 120), "0", "-1", "10", "1.5", "1.50", "0.5e+10", "1e01", "1e+01", "1.0e", "1e0x", "1.2.3", "1ee1", "1e+-1", "-.5", "-e1", "1-", "1+1",
	"0e", "0.0.", "9223372036854775807", "9223372036854775808", "-9223372036854775808", "-9223372036854775809", "18446744073709551615", "18446744073709551616",
	"1E400", "-0e0", "0E+0", "2e-1", "٣", "１", "1\x00", "Infinity", "-Infinity", "NaN", "nan", "inf", "-inf", "1f", "1d", "1L", "0b1", "0o7", "1,5", "1.5f"}

var c10tStructural = []string{"[1,]", "[,1]", "[,]", `{"a":1,}`, "{,}", `{"a"}`, `{"a":}`, "{1:2}", `{"a":1 "b":2}`, "[1 2]", `["a":1]`, `{"a",1}`,
	"[", "]", "{", "}", "", " ", "\t\n\r ", `"`, `"abc`, `"\`, `"\x"`, `'a'`, `{'a':1}`, `{a:1}`, "[]", "{}", "[[]]", "[{}]", `{"":[]}`, `{"a":{"a":{}}}`,
	"[] x", "{}{}", "1,", "null null", "[1]]", "true\x00", "[]]", "{}}", "[}", "{]", `{"a":1]`, `[1}`, "[1,2", `{"a":1`, `{"a"`, `{"a":`, "[1,",
	"NaN", "Infinity", "-Infinity", "nan", "True", "NULL", "nul", "tru", "truee", "undefined", "nullx", "falsee", "fals", "t", "n", "f", "TRUE", "None",
	"/* c */ 1", "1 // x", "[1,/*x*/2]", "# x\n1", "[1,2]//", "\xef\xbb\xbf[]", "\xef\xbb\xbf", "\xfe\xff[]", "\f[]", "[\f]", "\v[]", "[]\f", "\xc2\xa0[]", "[\xc2\xa0]",
	"\xe2\x80\xa8[]", "[]\xe2\x80\xa8", "\xc2\x85[]", "\x00[]", "[]\x00", "[\x00]", " [ ] ", "\n{\n}\n", "\r[\r]\r", "\t1\t", " null ", " true", "false ", ` "a" `,
	`"a" "b"`, `"a","b"`, `["a" "b"]`, `[1,,2]`, `[[1],]`, `{"a":1,,"b":2}`, `{"a"::1}`, `{:1}`, `{"a":1:2}`, `[:]`, `[",]`, `["\"]`, `["\\"]`, "[\"a\nb\"]", "[\"a\tb\"]",
	"[\"a\x7fb\"]", "[\"a\x1fb\"]", "[\"a\x00b\"]", "[\"\r\"]", `{"a":1,"a":2}`, `{"a":1,"a":{"a":2,"a":3}}`, `{"a":1,"a":2}`, `{"a":1,"A":2}`, `{"a\u0000":1}`,
	`[1e5,1E5,1.0,-0]`, `[ 1 , 2 ]`, "[1\n,\n2]", `{"a" : 1 , "b" : 2}`, `[null,true,false]`, `[nulltrue]`, `[truefalse]`, `[true false]`, `[-]`, `[.]`, `[+]`, `[e]`,
	"\"\xef\xbb\xbf\"", "[\"\\", "[\"\\u", "[\"\\u00", "\"\\ud800", "[1]\n\n", "[1]x", "[1] [2]", "1 1", "{} 1", `"a"x`, "truetrue", "true,"}

var c10tLabelTexts = c10tUs([]string{"\f[\"REQ\",\"s\",{}]", "[ \f\"REQ\",\"s\",{}]", `["RE Q","s",{}]`, `["REQ" ,"s",{}]`, `["REQ ","s",{}]`, `["REQ~u0020","s",{}]`,
	`["~u0052EQ","s",{}]`, `["R~u0045Q","s",{}]`, `["REQ","s",{}]`, `[ "REQ_1","s",{}]`, `["","s"]`, `[["REQ"]]`, `["REQ"`, `["REQ"]x`, "\v[\"REQ\",\"s\",{}]", "\xc2\xa0[\"CLOSE\",\"s\"]", " \t\n\r[ \t\n\r\"CLOSE\" , \"s\" ] ",
	`["CLOSE","s"]`, ` ["CLOSE","s"]`, `["CLOSE","s"] `, `["CLOSE" "s"]`, `["CLOSE","s",]`, `["CLOSE","s"]]`, `["close","s"]`, `["CLOSE_","s"]`, `["CLOSE1","s"]`, `["CLOS","s"]`,
	`["CLOSE\"","s"]`, `["CLOSE\\","s"]`, `["CLOSÉ","s"]`, "[\"CLOSE\xff\",\"s\"]", `["CLOSE`, `["CLOSE",`, `["CLOSE","s"`, `[ "EVENT" , null ]`, `["EVENT",{}]`, `["AUTH",null]`,
	`["COUNT","s",{}]`, `["COUNT","s",{"limit":1.5}]`, `["REQ","s",{"limit":1e2}]`, `["REQ","s",{"limit":-0}]`, `["REQ","s",{"limit":007}]`, `["REQ","s",{"since":9223372036854775808}]`,
	`["REQ","s",{"#e":["\ud800"]}]`, `["REQ","s\u0000",{}]`, "[\"REQ\",\"s\xff\",{}]", `["REQ","s",{"ids":["a"],"ids":["b"]}]`, `["REQ","s",{"ids":["a"],"IDS":["b"]}]`,
	`[1,"REQ"]`, `{"REQ":1}`, `"REQ"`, `[`, `["`, `[""`, `[""]`, `[ ""]`, `["" ]`, "[\n\"REQ\"\n,\n\"s\"\n,\n{\n}\n]\n", "\n\n[\"REQ\",\"s\",{}]", "\r\n[\"REQ\",\"s\",{}]", "\f\f[\"REQ\",\"s\",{}]",
	`[ "REQ","s",{"kinds":[1,2,3],"#p":["x","y"],"since":1,"until":2,"limit":3}]`, `["EVENT",{"id":"a","pubkey":"b","created_at":1,"kind":1,"tags":[["e","x"]],"content":"c","sig":"d"}]`,
	`["EVENT",{"id":"a","pubkey":"b","created_at":1,"kind":1,"tags":[["e","x"]],"content":"c","sig":"d","sig":"e"}]`,
	`["EVENT",{"id":"a","pubkey":"b","created_at":1.0,"kind":1,"tags":[],"content":"c","sig":"d"}]`, `["EVENT",{"id":"a","pubkey":"b","created_at":123456789012345678901234567890,"kind":1,"tags":[],"content":"c","sig":"d"}]`})

func c10tValidText(r *common.Rand) (string, []byte) {
	if r.Chance(40) {
		ps := &printStyle{r: r, ws: 10, esc: 10}
		return common.Pick(r, allTypes), ps.print(c10tAny(r, 3))
	}
	t := common.Pick(r, allTypes)
	if r.Bool() {
		t = common.Pick(r, []string{"cclose", "creq", "ccount", "sok", "scount", "filter"})
	}
	ps := &printStyle{r: r, ws: 10, esc: 5}
	return t, ps.print(c10ShapeJV(t, r))
}

// c10tFrame: put a fragment in a context
func c10tFrame(r *common.Rand, frag string, inString bool) (string, string) {
	if inString {
		switch r.Intn(6) {
		case 0:
			return "cclose", `["CLOSE","` + frag + `"]`
		case 1:
			return "snotice", `["NOTICE","` + frag + `"]`
		case 2:
			return "creq", `["REQ","s",{"#e":["` + frag + `"],"ids":["x` + frag + `x"]}]`
		case 3:
			return common.Pick(r, allTypes), `{"` + frag + `":"` + frag + `"}`
		case 4:
			return "creq", `["REQ","` + frag + `",{}]`
		default:
			return common.Pick(r, allTypes), `"` + frag + `"`
		}
	}
	switch r.Intn(6) {
	case 0:
		return "creq", `["REQ","s",{"limit":` + frag + `}]`
	case 1:
		return "creq", `["REQ","s",{"kinds":[1,` + frag + `]}]`
	case 2:
		return "scount", `["COUNT","s",{"count":` + frag + `}]`
	case 3:
		return common.Pick(r, allTypes), `[` + frag + `]`
	case 4:
		return common.Pick(r, allTypes), `{"a":` + frag + `}`
	default:
		return common.Pick(r, allTypes), frag
	}
}

func c10tGenMalformed(r *common.Rand) c10tCase {
	anyTy := func() string { return common.Pick(r, allTypes) }
	switch k := r.Intn(100); {
	case k < 8: // arbitrary bytes
		n := r.Intn(30)
		b := make([]byte, n)
		for i := range b {
			if r.Chance(88) {
				b[i] = common.Pick(r, c10tAlphabet)
			} else {
				b[i] = byte(r.Intn(256))
			}
		}
		return c10tRun("mal:bytes", anyTy(), b)
	case k < 20: // truncation
		t, text := c10tValidText(r)
		if len(text) > 0 {
			text = text[:r.Intn(len(text))]
		}
		return c10tRun("mal:truncated", t, text)
	case k < 38: // byte-level near miss
		t, text := c10tValidText(r)
		n := 1 + r.Intn(2)
		for i := 0; i < n && len(text) > 0; i++ {
			p := r.Intn(len(text))
			switch r.Intn(4) {
			case 0:
				text[p] = common.Pick(r, c10tAlphabet)
			case 1:
				text = append(text[:p:p], text[p+1:]...)
			case 2:
				text = append(text[:p:p], append([]byte{common.Pick(r, c10tAlphabet)}, text[p:]...)...)
			default:
				text[p] ^= byte(1 << uint(r.Intn(8)))
			}
		}
		return c10tRun("mal:byte-mutation", t, text)
	case k < 48: // invalid UTF-8, inside and outside strings
		bad := common.Pick(r, c10tBadUTF8)
		if r.Chance(30) {
			bad = bad + common.Pick(r, c10tBadUTF8)
		}
		if r.Chance(15) {
			ty, text := c10tFrame(r, bad, false)
			return c10tRun("mal:utf8-outside", ty, []byte(text))
		}
		ty, text := c10tFrame(r, common.Pick(r, []string{"", "a", "é"})+bad+common.Pick(r, []string{"", "b", "\\n"}), true)
		return c10tRun("mal:utf8", ty, []byte(text))
	case k < 60: // escapes, surrogates
		e := common.Pick(r, c10tEscapes)
		if r.Chance(35) {
			e = e + common.Pick(r, c10tEscapes)
		}
		ty, text := c10tFrame(r, common.Pick(r, []string{"", "a"})+e+common.Pick(r, []string{"", "b"}), true)
		return c10tRun("mal:escape", ty, []byte(text))
	case k < 64: // control characters in strings
		c := string([]byte{byte(r.Intn(33))})
		if r.Chance(15) {
			c = "\x7f"
		}
		ty, text := c10tFrame(r, "a"+c+"b", true)
		return c10tRun("mal:control", ty, []byte(text))
	case k < 76: // numbers
		ty, text := c10tFrame(r, common.Pick(r, c10tNumbers), false)
		return c10tRun("mal:number", ty, []byte(text))
	case k < 88: // structure, literals, comments, BOM, white space
		s := common.Pick(r, c10tStructural)
		if r.Chance(20) {
			ty, text := c10tFrame(r, s, false)
			return c10tRun("mal:structure", ty, []byte(text))
		}
		return c10tRun("mal:structure", anyTy(), []byte(s))
	case k < 94: // label pattern
		s := common.Pick(r, c10tLabelTexts)
		return c10tRun("mal:label", common.Pick(r, clientTypes), []byte(s))
	default: // nesting
		n := 1 + r.Intn(300)
		open, cl := "[", "]"
		if r.Chance(30) {
			open, cl = `{"a":`, "}"
		}
		m := n
		if r.Chance(25) {
			m = n + r.Intn(3) - 1
			if m < 0 {
				m = 0
			}
		}
		core := strings.Repeat(open, n) + common.Pick(r, []string{"", "1", `"x"`, "null", " "}) + strings.Repeat(cl, m)
		return c10tRun("mal:nesting", anyTy(), []byte(core))
	}
}

// the scanner's nesting limit (10000 open containers): a handful per run
func c10tGenLimit(r *common.Rand) c10tCase {
	n := common.Pick(r, []int{9999, 10000, 10001, 10002})
	open, cl := "[", "]"
	if r.Chance(30) {
		open, cl = `{"a":`, "}"
	}
	mid := common.Pick(r, []string{"", "1", `"x"`})
	core := strings.Repeat(open, n) + mid + strings.Repeat(cl, n)
	switch r.Intn(3) {
	case 0:
		return c10tRun("limit:nesting", "event", []byte(core))
	case 1:
		return c10tRun("limit:nesting", "cevent", []byte(`["EVENT",`+core+`]`))
	default:
		return c10tRun("limit:nesting", "creq", []byte(` [ "REQ","s",{"ids":`+core+`}]`))
	}
}

// ---- sub-command ------------------------------------------------------------------------

func c10tReplay(raw json.RawMessage) c10tCase {
	var c c10tCase
	if err := json.Unmarshal(raw, &c); err != nil {
		common.Fatalf("bad replay case: %v", err)
	}
	ty := c.Ty
	if ty == "" {
		ty = "event"
	}
	return c10tRun(c.Cls, ty, unhex(c.Text))
}

func init() {
	subcmds["c10text"] = func(seed uint64, n int, out *common.Out, replay string) {
		if replay != "" {
			for _, raw := range common.ReadLines(replay) {
				out.Emit(c10tReplay(raw))
			}
			return
		}
		root := common.NewRand(seed)
		// every fixed list once per run (they are short), then the random streams
		fixed := 0
		emitFixed := func(cls string, ty string, s string) {
			if fixed < n/3 {
				out.Emit(c10tRun(cls, ty, []byte(s)))
				fixed++
			}
		}
		for _, s := range c10tStructural {
			emitFixed("fixed:structure", "cclose", s)
		}
		for _, s := range c10tNumbers {
			emitFixed("fixed:number", "creq", `["REQ","s",{"limit":`+s+`}]`)
			emitFixed("fixed:number", "filter", s)
		}
		for _, s := range c10tEscapes {
			emitFixed("fixed:escape", "cclose", `["CLOSE","`+s+`"]`)
		}
		for _, s := range c10tBadUTF8 {
			emitFixed("fixed:utf8", "cclose", `["CLOSE","a`+s+`b"]`)
			emitFixed("fixed:utf8", "cclose", s)
		}
		for _, s := range c10tLabelTexts {
			emitFixed("fixed:label", "creq", s)
		}
		limits := 0
		for i := fixed; i < n; i++ {
			r := root.Fork(uint64(i))
			switch k := i % 20; {
			case k < 10:
				out.Emit(c10tGenValueText(r))
			case k == 19 && limits < 6 && r.Chance(30):
				limits++
				out.Emit(c10tGenLimit(r))
			default:
				out.Emit(c10tGenMalformed(r))
			}
		}
	}
}
