module verif/harness

go 1.23.0

require (
	github.com/high-moctane/mocrelay v0.0.0
	github.com/mattn/go-sqlite3 v1.14.27
)

require (
	github.com/btcsuite/btcd/btcec/v2 v2.3.4 // indirect
	github.com/btcsuite/btcd/chaincfg/chainhash v1.0.1 // indirect
	github.com/coder/websocket v1.8.13 // indirect
	github.com/decred/dcrd/crypto/blake256 v1.0.0 // indirect
	github.com/decred/dcrd/dcrec/secp256k1/v4 v4.0.1 // indirect
	github.com/doug-martin/goqu/v9 v9.19.0 // indirect
	github.com/google/uuid v1.6.0 // indirect
	github.com/hashicorp/golang-lru/v2 v2.0.7 // indirect
	github.com/igrmk/treemap/v2 v2.0.1 // indirect
	github.com/pierrec/xxHash v0.1.5 // indirect
	golang.org/x/exp v0.0.0-20220317015231-48e79f11773a // indirect
	golang.org/x/time v0.11.0 // indirect
)

replace github.com/high-moctane/mocrelay => /repo
