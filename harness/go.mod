module verif/harness

go 1.23.0

require (
	github.com/btcsuite/btcd/btcec/v2 v2.3.4
	github.com/coder/websocket v1.8.13
	github.com/high-moctane/mocrelay v0.0.0
	github.com/mattn/go-sqlite3 v1.14.27
	github.com/prometheus/client_golang v1.22.0
)

require (
	github.com/beorn7/perks v1.0.1 // indirect
	github.com/btcsuite/btcd/chaincfg/chainhash v1.0.1 // indirect
	github.com/cespare/xxhash/v2 v2.3.0 // indirect
	github.com/decred/dcrd/crypto/blake256 v1.0.0 // indirect
	github.com/decred/dcrd/dcrec/secp256k1/v4 v4.0.1 // indirect
	github.com/doug-martin/goqu/v9 v9.19.0 // indirect
	github.com/google/uuid v1.6.0 // indirect
	github.com/hashicorp/golang-lru/v2 v2.0.7 // indirect
	github.com/igrmk/treemap/v2 v2.0.1 // indirect
	github.com/munnerz/goautoneg v0.0.0-20191010083416-a7dc8b61c822 // indirect
	github.com/pierrec/xxHash v0.1.5 // indirect
	github.com/prometheus/client_model v0.6.1 // indirect
	github.com/prometheus/common v0.62.0 // indirect
	github.com/prometheus/procfs v0.15.1 // indirect
	golang.org/x/exp v0.0.0-20220317015231-48e79f11773a // indirect
	golang.org/x/sys v0.30.0 // indirect
	golang.org/x/time v0.11.0 // indirect
	google.golang.org/protobuf v1.36.5 // indirect
)

replace github.com/high-moctane/mocrelay => /repo
