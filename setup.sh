#!/bin/sh
# Builds the whole framework from files on disk (offline): guard translator,
# generated guards, every Coq file (full .vo build), harness binaries.
set -e
cd "$(dirname "$0")"
export GOFLAGS=-mod=mod GOPROXY=off GOSUMDB=off GOTOOLCHAIN=local CGO_ENABLED=1
mkdir -p bin work evidence replays
(cd gen && go build -o ../bin/gen .)
./bin/gen -repo "${VERIF_REPO:-/repo}" -out coq/theories/Gen || echo "setup: guard translator reported a broken tie (checks will report it)"
python3 lib/engine.py makefile
(cd coq && timeout 3000 make -j12 -k) || echo "setup: some Coq files did not build (checks will report it)"
cp "${VERIF_REPO:-/repo}/go.sum" harness/go.sum
for b in $(ls harness/cmd); do
  (cd harness && go build -tags verif -o ../bin/$b ./cmd/$b) || echo "setup: harness $b did not build"
done
echo "setup done"
